------------------------------- MODULE MC_BV -------------------------------
(***************************************************************************)
(* Exhaustive small-scope check that the limb-sequence operators of BV are *)
(* the mathematical operators of BVMath: all widths 1..MaxW, all operand   *)
(* pairs, every operator (including shift amounts up to and beyond the     *)
(* width, zero divisors excluded, all extension/truncation target widths). *)
(* One TLC state per (w, a, b); the comparison is the invariant.           *)
(***************************************************************************)
EXTENDS BV, BVMath, FiniteSets

CONSTANT MaxW

RECURSIVE ToIntR(_,_)
ToIntR(a, i) == IF i = 0 THEN 0 ELSE a[i] + B * ToIntR(a, i - 1)
\* little endian: fold from the top
RECURSIVE ToIntF(_,_,_)
ToIntF(a, i, acc) == IF i = 0 THEN acc ELSE ToIntF(a, i - 1, acc * B + a[i])
ToInt(a) == ToIntF(a, Len(a), 0)

VARIABLES w, x, y
vars == <<w, x, y>>

\* two levels so that TLC's workers share the enumeration: (w, x) in Init, y in Next
Init == /\ w \in 1..MaxW
        /\ x \in 0..(2^w - 1)
        /\ y = -1
Next == /\ y = -1
        /\ y' \in 0..(2^w - 1)
        /\ UNCHANGED <<w, x>>
Spec == Init /\ [][Next]_vars

a == FromNat(w, x)
b == FromNat(w, y)

RoundTrip == IsBV(w, a) /\ ToInt(a) = x /\ IsBV(w, b) /\ ToInt(b) = y

Res(r, wr) == IsBV(wr, r)

Arith ==
  /\ ToInt(Add(w, a, b)) = AddM(w, x, y) /\ Res(Add(w, a, b), w)
  /\ ToInt(Sub(w, a, b)) = SubM(w, x, y) /\ Res(Sub(w, a, b), w)
  /\ ToInt(Mul(w, a, b)) = MulM(w, x, y) /\ Res(Mul(w, a, b), w)
  /\ ToInt(Neg(w, a)) = SubM(w, 0, x)
  /\ ToInt(BvNot(w, a)) = 2^w - 1 - x
  /\ y # 0 => /\ ToInt(Divu(w, a, b)) = DivuM(w, x, y) /\ Res(Divu(w, a, b), w)
              /\ ToInt(Modu(w, a, b)) = ModuM(w, x, y) /\ Res(Modu(w, a, b), w)
              /\ DivModu(w, a, b) = DivModuSerial(w, a, b)          \* limb-wise (Knuth D) = bit-serial
              /\ ToInt(Divs(w, a, b)) = DivsM(w, x, y) /\ Res(Divs(w, a, b), w)
              /\ ToInt(Mods(w, a, b)) = ModsM(w, x, y) /\ Res(Mods(w, a, b), w)

Logic ==
  /\ ToInt(BvAnd(w, a, b)) = AndM(w, x, y) /\ Res(BvAnd(w, a, b), w)
  /\ ToInt(BvOr(w, a, b))  = OrM(w, x, y)  /\ Res(BvOr(w, a, b), w)
  /\ ToInt(BvXor(w, a, b)) = XorM(w, x, y) /\ Res(BvXor(w, a, b), w)

Shifts ==
  /\ ToInt(ShlV(w, a, b))  = ShlM(w, x, y)  /\ Res(ShlV(w, a, b), w)
  /\ ToInt(ShrV(w, a, b))  = ShrM(w, x, y)  /\ Res(ShrV(w, a, b), w)
  /\ ToInt(AShrV(w, a, b)) = AShrM(w, x, y) /\ Res(AShrV(w, a, b), w)
  /\ Amount(w, b) = (IF y >= w THEN w ELSE y)

Compare ==
  /\ ToInt(Bool(Eq(w, a, b)))  = EqM(x, y)
  /\ ToInt(Bool(Ltu(w, a, b))) = LtuM(x, y)
  /\ ToInt(Bool(Lts(w, a, b))) = LtsM(w, x, y)
  /\ CarryOut(w, a, b, 0) = (IF x + y >= 2^w THEN 1 ELSE 0)
  /\ CarryOut(w, a, b, 1) = (IF x + y + 1 >= 2^w THEN 1 ELSE 0)
  /\ ToInt(AddCin(w, a, b, 1)) = Wrap(w, x + y + 1)

Widths ==
  /\ \A wt \in (w + 1)..(MaxW + LimbBits + 1) :
        /\ ToInt(Zext(wt, a)) = x /\ Res(Zext(wt, a), wt)
        /\ ToInt(Sext(w, wt, a)) = SextM(w, wt, x) /\ Res(Sext(w, wt, a), wt)
  /\ \A wt \in 1..(w - 1) :
        /\ ToInt(Trun(wt, a)) = TrunM(wt, x) /\ Res(Trun(wt, a), wt)
  /\ \A lo \in 0..(w - 1) : \A n \in 1..(w - lo) :
        ToInt(Extract(w, a, lo, n)) = (x \div 2^lo) % 2^n
  /\ ToInt(Concat(w, a, w, b)) = x * 2^w + y
  /\ \A k \in 0..(w - 1) : Bit(a, k) = (x \div 2^k) % 2

\* algebraic sanity of the integer side itself (guards against a wrong oracle)
MathSanity ==
  /\ y # 0 => /\ DivuM(w, x, y) * y + ModuM(w, x, y) = x
              /\ Signed(w, x) = TDiv(Signed(w, x), Signed(w, y)) * Signed(w, y) + TRem(Signed(w, x), Signed(w, y))
              /\ AbsI(TRem(Signed(w, x), Signed(w, y))) < AbsI(Signed(w, y))
              /\ (TRem(Signed(w, x), Signed(w, y)) # 0 => (TRem(Signed(w, x), Signed(w, y)) < 0) = (Signed(w, x) < 0))
  /\ AddM(w, SubM(w, x, y), y) = x
  /\ (Signed(w, x) >= 0 => AShrM(w, x, y) = ShrM(w, x, y))

AllAgree == y >= 0 => RoundTrip /\ Arith /\ Logic /\ Shifts /\ Compare /\ Widths /\ MathSanity
=============================================================================
