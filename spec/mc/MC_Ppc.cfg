CONSTANTS LimbBits = 8
SPECIFICATION Spec
INVARIANT AllOk
CHECK_DEADLOCK FALSE
