CONSTANTS LimbBits = 8
SPECIFICATION Spec
INVARIANT AllMatch
INVARIANT FewUnspec
POSTCONDITION Consumed
CHECK_DEADLOCK FALSE
