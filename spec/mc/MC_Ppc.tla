------------------------------- MODULE MC_Ppc -------------------------------
(***************************************************************************)
(* Design-level checks of Ppc.tla (no implementation involved): every      *)
(* definition the verdicts rely on is compared with a second formulation.  *)
(*                                                                         *)
(* MaskOk      MASK(mb, me) built bit by bit from the manual's wording     *)
(*             ("ones from bit mb through bit me, wrapping around") equals *)
(*             the closed formula (~0 >> mb) ^ ((~0 >> me) >> 1),          *)
(*             complemented when mb > me; all 32 x 32 pairs.               *)
(* RotOk       ROTL32 moves value bit i to bit (i + n) mod 32.             *)
(* RlwinmOk    well-known idioms: slwi, srwi, clrlwi, extrwi.              *)
(* CompareOk   a compare sets exactly one of lt/gt/eq of the addressed     *)
(*             field, is antisymmetric, leaves the other 28+1 bits alone.  *)
(* BoOk        BranchCond equals the manual's BO table, row by row, for    *)
(*             all valid BO, CTR in {0,1,2}, both values of the CR bit.    *)
(* SrawiOk     CA = 1 iff the source is negative and shifting the result   *)
(*             back does not restore it.                                   *)
(* KnownAnswers  hand-computed results incl. the one in falcon's PPC test. *)
(***************************************************************************)
EXTENDS Ppc

VARIABLES mb, me
vars == <<mb, me>>
Init == mb \in 0..31 /\ me = -1
Next == me = -1 /\ me' \in 0..31 /\ UNCHANGED mb
Spec == Init /\ [][Next]_vars

FF == <<255, 255, 255, 255>>
MaskFormula(b, e) == LET m == BvXor(32, Shr(32, FF, b), Shr(32, Shr(32, FF, e), 1))
                     IN IF b <= e THEN m ELSE BvNot(32, m)
MaskOk == me >= 0 =>
  /\ Mask32(mb, me) = MaskFormula(mb, me)
  /\ \A i \in 0..31 : Bit(Mask32(mb, me), 31 - i) = BoolBit(MaskBit(mb, me, i))
  /\ (mb = (me + 1) % 32 => Mask32(mb, me) = FF)

Samples == << <<1,0,0,0>>, <<0,48,0,144>>, <<0,48,4,176>>, <<120,86,52,18>>, FF, <<0,0,0,128>> >>
RotOk == me >= 0 =>
  \A s \in 1..Len(Samples) : \A i \in 0..31 :
     Bit(Rotl32(Samples[s], me), (i + me) % 32) = Bit(Samples[s], i)

\* encoders for test vectors
EncM(rs, ra, sh, b, e, rc) == <<(b % 4) * 64 + e * 2 + rc, sh * 8 + b \div 4, (rs % 8) * 32 + ra, 21 * 4 + rs \div 8>>
EncD(op, rt, ra, imm)      == <<imm % 256, imm \div 256, (rt % 8) * 32 + ra, op * 4 + rt \div 8>>
EncX(rt, ra, rb, xo, rc)   == <<(xo % 128) * 2 + rc, rb * 8 + xo \div 128, (rt % 8) * 32 + ra, 31 * 4 + rt \div 8>>
St(a, b) == [gpr |-> [i \in 1..32 |-> CASE i = 4 -> a [] i = 5 -> b [] OTHER -> <<i, 0, 0, 0>>],
             lr |-> <<0, 16, 0, 0>>, ctr |-> <<2, 0, 0, 0>>, ca |-> 0, cr |-> [i \in 1..32 |-> i % 2],
             mem |-> <<1, 2, 3, 4, 5, 6, 7, 8>>, win |-> <<0, 1, 0, 0>>]
PC0 == <<0, 16, 0, 0>>
Run(w, a, b) == PExec(PDecode(w), St(a, b), PC0)[1]

RlwinmOk == me >= 0 =>
  \A s \in 1..Len(Samples) :
    LET x == Samples[s]  n == me IN
    \* rlwinm r4, r3, sh, mb, me with the idiom parameters
    /\ n >= 1 => Run(EncM(3, 4, n, 0, 31 - n, 0), x, x).st.gpr[5] = Shl(32, x, n)                 \* slwi
    /\ n >= 1 => Run(EncM(3, 4, 32 - n, n, 31, 0), x, x).st.gpr[5] = Shr(32, x, n)                \* srwi
    /\ Run(EncM(3, 4, 0, n, 31, 0), x, x).st.gpr[5] = BvAnd(32, x, Shr(32, FF, n))                \* clrlwi
    /\ Run(EncM(3, 4, 0, 0, n, 0), x, x).st.gpr[5] = BvAnd(32, x, BvNot(32, Shr(32, Shr(32, FF, n), 1)))   \* clrrwi 31-n

CompareOk == me >= 0 =>
  \A s \in 1..Len(Samples) : \A t \in 1..Len(Samples) :
    LET a == Samples[s]  b == Samples[t]  f == mb % 8
        cs == Run(EncX(f * 4, 3, 4, 0, 0), a, b).st.cr           \* cmpw  crf, r3, r4
        cu == Run(EncX(f * 4, 3, 4, 32, 0), a, b).st.cr          \* cmplw crf, r3, r4
        rs == Run(EncX(f * 4, 3, 4, 0, 0), b, a).st.cr
        c0 == St(a, b).cr
    IN /\ cs[4 * f + 1] + cs[4 * f + 2] + cs[4 * f + 3] = 1
       /\ cu[4 * f + 1] + cu[4 * f + 2] + cu[4 * f + 3] = 1
       /\ cs[4 * f + 1] = rs[4 * f + 2] /\ cs[4 * f + 3] = rs[4 * f + 3]
       /\ (cs[4 * f + 3] = 1) = (a = b) /\ (cu[4 * f + 3] = 1) = (a = b)
       /\ (a[4] < 128 /\ b[4] < 128 => cs = cu)                                \* same sign: signed = unsigned
       /\ (a[4] >= 128 /\ b[4] < 128 => cs[4 * f + 1] = 1 /\ cu[4 * f + 2] = 1)
       /\ \A i \in 1..32 : (i - 1) \div 4 # f => cs[i] = c0[i] /\ cu[i] = c0[i]
       /\ cs[4 * f + 4] = c0[4 * f + 4]

\* the BO table of the manual (Branch Conditional, "BO field encodings")
BoTable(bo, ctr1zero, crbit) ==
  CASE bo \div 2 = 0  -> ~ctr1zero /\ crbit = 0       \* 0000y
    [] bo \div 2 = 1  -> ctr1zero /\ crbit = 0        \* 0001y
    [] bo \div 4 = 1  -> crbit = 0                    \* 001zy
    [] bo \div 2 = 4  -> ~ctr1zero /\ crbit = 1       \* 0100y
    [] bo \div 2 = 5  -> ctr1zero /\ crbit = 1        \* 0101y
    [] bo \div 4 = 3  -> crbit = 1                    \* 011zy
    [] bo \in {16, 17, 24, 25} -> ~ctr1zero           \* 1z00y
    [] bo \in {18, 19, 26, 27} -> ctr1zero            \* 1z01y
    [] OTHER          -> TRUE                         \* 1z1zz
BoDecrements(bo) == bo \div 4 \in {0, 2, 4, 6}        \* BO[2] = 0
BoOk == me >= 0 =>
  \A c \in 0..2 : \A bit \in 0..1 :
    LET bo  == me
        st  == [St(FF, FF) EXCEPT !.ctr = <<c, 0, 0, 0>>, !.cr = [i \in 1..32 |-> IF i = 8 THEN bit ELSE 1 - bit]]
        r   == BranchCond(st, bo, 7)
        c1  == IF BoDecrements(bo) THEN Sub(32, <<c, 0, 0, 0>>, One(32)) ELSE <<c, 0, 0, 0>>
    IN /\ r.ctr = c1
       /\ r.taken = BoTable(bo, IsZero(c1), bit)

SrawiOk == me >= 0 =>
  \A s \in 1..Len(Samples) :
    LET x == Samples[s]  n == me
        r == Run(EncX(3, 4, n, 824, 0), x, x).st
    IN /\ r.gpr[5] = AShr(32, x, n)
       /\ r.ca = BoolBit(x[4] >= 128 /\ Shl(32, r.gpr[5], n) # x)

KnownAnswers ==
  \* falcon's own test: rlwinm 6,4,2,0,0x1d on 0x90003000 = 0x4000c000, on 0xb0043000 = 0xc010c000
  /\ PDecode(<<58, 16, 134, 84>>).mn = "rlwinm"
  /\ PExec(PDecode(<<58, 16, 134, 84>>), [St(FF, FF) EXCEPT !.gpr[5] = <<0, 48, 0, 144>>], PC0)[1].st.gpr[7] = <<0, 192, 0, 64>>
  /\ PExec(PDecode(<<58, 16, 134, 84>>), [St(FF, FF) EXCEPT !.gpr[5] = <<0, 48, 4, 176>>], PC0)[1].st.gpr[7] = <<0, 192, 16, 192>>
  \* wrap-around mask: rlwinm r4, r3, 0, 30, 1  keeps bits 30, 31, 0, 1 = 0xc0000003
  /\ Run(EncM(3, 4, 0, 30, 1, 0), FF, FF).st.gpr[5] = <<3, 0, 0, 192>>
  \* addis r4, r3, 0x8000 ; addi r4, 0, -1 (li) ; addis r4, 0, 0x1234 (lis)
  /\ Run(EncD(15, 4, 3, 32768), <<1, 0, 0, 0>>, FF).st.gpr[5] = <<1, 0, 0, 128>>
  /\ Run(EncD(14, 4, 0, 65535), <<1, 0, 0, 0>>, <<0, 0, 0, 0>>).st.gpr[5] = FF
  /\ Run(EncD(15, 4, 0, 4660), FF, FF).st.gpr[5] = <<0, 0, 52, 18>>
  \* subf r5, r3, r4 = r4 - r3 ; addze with carry
  /\ Run(EncX(5, 3, 4, 40, 0), <<1, 0, 0, 0>>, <<0, 0, 0, 0>>).st.gpr[6] = FF
  /\ LET r == PExec(PDecode(EncX(5, 3, 0, 202, 0)), [St(FF, FF) EXCEPT !.ca = 1], PC0)[1].st IN r.gpr[6] = <<0, 0, 0, 0>> /\ r.ca = 1
  /\ LET r == PExec(PDecode(EncX(5, 3, 0, 202, 0)), [St(<<5, 0, 0, 0>>, FF) EXCEPT !.ca = 1], PC0)[1].st IN r.gpr[6] = <<6, 0, 0, 0>> /\ r.ca = 0
  \* cmpwi cr7, r3, -1 on r3 = 0xffffffff : eq ; cmplwi cr7, r3, 0xffff on 0xffffffff : gt
  /\ LET c == Run(EncD(11, 28, 3, 65535), FF, FF).st.cr IN c[29] = 0 /\ c[30] = 0 /\ c[31] = 1
  /\ LET c == Run(EncD(10, 28, 3, 65535), FF, FF).st.cr IN c[29] = 0 /\ c[30] = 1 /\ c[31] = 0
  \* add. : CR0 from the signed result
  /\ LET c == Run(EncX(5, 3, 4, 266, 1), FF, <<0, 0, 0, 0>>).st.cr IN c[1] = 1 /\ c[2] = 0 /\ c[3] = 0
  \* blr = bclr 20,0 : next pc = LR & ~3 ; bdnz: ctr 2 -> 1, taken
  /\ PExec(PDecode(<<32, 0, 128, 78>>), [St(FF, FF) EXCEPT !.lr = <<7, 32, 0, 0>>], PC0)[1].npc = <<4, 32, 0, 0>>
  /\ LET r == PExec(PDecode(<<248, 255, 0, 66>>), St(FF, FF), PC0)[1] IN r.st.ctr = <<1, 0, 0, 0>> /\ r.npc = <<248, 15, 0, 0>>   \* bdnz -8
  /\ LET r == PExec(PDecode(<<248, 255, 0, 66>>), [St(FF, FF) EXCEPT !.ctr = <<1, 0, 0, 0>>], PC0)[1] IN r.st.ctr = <<0, 0, 0, 0>> /\ r.npc = <<4, 16, 0, 0>>
  \* bl +0x100: lr = pc + 4
  /\ LET r == PExec(PDecode(<<1, 1, 0, 72>>), St(FF, FF), PC0)[1] IN r.st.lr = <<4, 16, 0, 0>> /\ r.npc = <<0, 17, 0, 0>>
  \* mtlr r3 / mfctr r5
  /\ PExec(PDecode(<<166, 3, 104, 124>>), St(<<9, 9, 9, 9>>, FF), PC0)[1].st.lr = <<9, 9, 9, 9>>
  /\ PExec(PDecode(<<166, 2, 169, 124>>), St(FF, FF), PC0)[1].st.gpr[6] = <<2, 0, 0, 0>>
  \* stmw r30, 0(r4) with r4 = 0x100: two words
  /\ LET r == PExec(PDecode(EncD(47, 30, 4, 0)), St(FF, <<0, 1, 0, 0>>), PC0)[1].st IN r.mem = <<0, 0, 0, 31, 0, 0, 0, 32>>
ASSUME KnownAnswers

AllOk == MaskOk /\ RotOk /\ RlwinmOk /\ CompareOk /\ BoOk /\ SrawiOk
=============================================================================
