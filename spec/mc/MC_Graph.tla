------------------------------ MODULE MC_Graph ------------------------------
(***************************************************************************)
(* Model checking of Graph.tla (C11).                                      *)
(*                                                                         *)
(* 1. The edit machine over the vertex ids Ids (non-contiguous: 1,4,7,9)   *)
(*    keeps ViewsConsistent; its reachable states are exactly all labelled *)
(*    digraphs (self-loops allowed) on subsets of Ids.                     *)
(* 2. On every such graph and every root, each definition of Graph.tla is  *)
(*    compared with a second, independent formulation (invariant           *)
(*    DefsAgree), so that an error in the oracle is caught here and not    *)
(*    reported against the code.                                           *)
(* 3. The expected values hard-coded in falcon's own unit tests            *)
(*    (lib/graph/mod.rs mod tests) are evaluated as ASSUMEs.               *)
(***************************************************************************)
EXTENDS Graph

CONSTANTS Ids,        \* vertex ids of the edit machine
          HeavyMax    \* graphs with at most this many vertices get the exhaustive candidate checks

Init == InitEmpty
Next == \/ \E v \in Ids : \/ InsertVertex(v) \/ InsertVertexErr(v)
                          \/ RemoveVertex(v) \/ RemoveVertexErr(v)
                          \/ RemoveUnreachable(v) \/ RemoveUnreachableErr(v)
        \/ \E h, t \in Ids : \/ InsertEdge(h, t) \/ InsertEdgeErr(h, t)
                             \/ RemoveEdge(h, t) \/ RemoveEdgeErr(h, t)
Spec == Init /\ [][Next]_gvars

-----------------------------------------------------------------------------
(* second formulations                                                     *)

G == [V |-> vertices, E |-> edges]

\* all simple paths of g that start with the path p
RECURSIVE PathsFrom(_, _)
PathsFrom(g, p) == {p} \cup UNION { PathsFrom(g, Append(p, s)) : s \in Succ(g, p[Len(p)]) \ ToSet(p) }
Last(p) == p[Len(p)]

\* dominance by explicit enumeration of simple paths
DomRel2(g, r) ==
  LET P == PathsFrom(g, <<r>>)
      R == { Last(p) : p \in P }
  IN [d \in R |-> { v \in R : \A p \in P : Last(p) = v => d \in ToSet(p) }]

\* immediate dominator: the strict dominator with exactly one dominator less than v
IDom2(D, v) == CHOOSE d \in SDomsOf(D, v) : Cardinality(DomsOf(D, d)) = Cardinality(DomsOf(D, v)) - 1

\* dominance frontier by the DF_local / DF_up recurrence of Cytron et al. over the dominator tree
RECURSIVE DF2(_, _, _, _)
DF2(g, D, r, x) ==
  LET idm      == IDomMap(D, r)
      R        == DOMAIN D
      local    == { y \in Succ(g, x) \cap R : y = r \/ idm[y] # x }
      children == { z \in R \ {r} : idm[z] = x }
      up(z)    == { y \in DF2(g, D, r, z) : y = r \/ idm[y] # x }
  IN local \cup UNION { up(z) : z \in children }

\* natural loop: dominated by the header and reaching a back-edge source without the header
Loop2(g, D, h) ==
  LET T == { e[1] : e \in { e \in BackEdgesOf(g, D) : e[2] = h } } IN
  {h} \cup { x \in D[h] \ {h} : \E t \in T : t \in Reach(Without(g, h), x) }
\* nesting as strict inclusion of the node sets
Nest2(g, D) == LET H == HeadersOf(g, D) IN
               { p \in H \X H : p[1] # p[2] /\ LoopOf(g, D, p[2]) \subseteq LoopOf(g, D, p[1]) }

\* reducibility by T1/T2 collapsing (Hecht, Ullman): delete self-loops, merge a vertex that has
\* a unique predecessor into that predecessor; reducible iff one vertex is left
RECURSIVE T12(_, _)
T12(g, r) ==
  LET g1 == [V |-> g.V, E |-> { e \in g.E : e[1] # e[2] }]
      C  == { v \in g1.V \ {r} : Cardinality(Pred(g1, v)) = 1 }
  IN IF C = {} THEN Cardinality(g1.V) = 1
     ELSE LET v == CHOOSE v \in C : TRUE
              p == CHOOSE p \in Pred(g1, v) : TRUE
          IN T12([V |-> g1.V \ {v},
                  E |-> { e \in g1.E : e[1] # v /\ e[2] # v } \cup { <<p, x>> : x \in Succ(g1, v) \ {v} }], r)
Induced(g, W) == [V |-> W, E |-> { e \in g.E : e[1] \in W /\ e[2] \in W }]

\* all arrangements of the elements of S in a row
Perms(S) == { f \in [1..Cardinality(S) -> S] : \A i, j \in 1..Cardinality(S) : f[i] = f[j] => i = j }
\* all sequences over S of length <= |S| (with repetitions)
SmallSeqs(S) == UNION { [1..k -> S] : k \in 0..Cardinality(S) }

\* every depth-first search of g: the set of [seen, pre, post, tree] it can produce
RECURSIVE DfsFrom(_, _, _)
DfsFrom(g, v, st) ==
  LET cand == Succ(g, v) \ st.seen IN
  IF cand = {} THEN { [st EXCEPT !.post = Append(@, v)] }
  ELSE UNION { UNION { DfsFrom(g, v, st2) :
                       st2 \in DfsFrom(g, c, [seen |-> st.seen \cup {c}, pre |-> Append(st.pre, c),
                                              post |-> st.post, tree |-> st.tree \cup {<<v, c>>}]) }
               : c \in cand }
AllDfs(g, r) == DfsFrom(g, r, [seen |-> {r}, pre |-> <<r>>, post |-> <<>>, tree |-> {}])

\* candidate spanning trees: one parent among the predecessors for every reachable non-root vertex
TreeCands(g, r) ==
  LET R == Reach(g, r)
      W == { v \in R \ {r} : TRUE }
  IN { [V |-> R, E |-> { <<f[v], v>> : v \in W }] : f \in { f \in [W -> R] : \A v \in W : f[v] \in Pred(g, v) } }

\* acyclic-subgraph acceptance, second formulation: topological order by enumeration,
\* reachability and cycles by simple paths
AcyclicSub2(g, r, a) ==
  LET R  == { Last(p) : p \in PathsFrom(g, <<r>>) }
      ai == Induced(a, R)
  IN /\ R \subseteq a.V /\ a.V \subseteq g.V /\ a.E \subseteq g.E
     /\ { Last(p) : p \in PathsFrom(a, <<r>>) } = R
     /\ \E f \in Perms(R) : \A i, j \in 1..Cardinality(R) : <<f[i], f[j]>> \in ai.E => i < j
     /\ \A e \in g.E \ a.E : e[1] \in R => \E p \in PathsFrom(g, <<e[2]>>) : Last(p) = e[1]

-----------------------------------------------------------------------------
(* the comparison, for one graph and one root                              *)

RootAgree(g, r) ==
  LET D    == DomRel(g, r)
      R    == Reach(g, r)
      dfs  == AllDfs(g, r)
      seqs == SmallSeqs(g.V)
  IN
  /\ R = { Last(p) : p \in PathsFrom(g, <<r>>) }
  /\ D = DomRel2(g, r)
  /\ \A d, v \in g.V : Dom(g, r, d, v) <=> (d \in R /\ v \in D[d])
  /\ \A v \in R \ {r} : /\ IDomOf(D, v) = IDom2(D, v)
                        /\ DomsOf(D, v) = {v} \cup DomsOf(D, IDomOf(D, v))
  /\ DomsOf(D, r) = {r}
  /\ \A x \in R : DFOf(g, D, x) = DF2(g, D, r, x)
  /\ \A h \in HeadersOf(g, D) : LoopOf(g, D, h) = Loop2(g, D, h)
  /\ NestOf(g, D) = Nest2(g, D)
  /\ Closure(NestOf(g, D)) = NestOf(g, D)
  /\ ReducibleOf(g, D) = T12(Induced(g, R), r)
  /\ IsAcyclicFrom(g, r) = (\E f \in Perms(R) : \A i, j \in 1..Cardinality(R) : <<f[i], f[j]>> \in g.E => i < j)
  /\ { q \in seqs : IsDfsPreOrder(g, r, q) }  = { d.pre : d \in dfs }
  /\ { q \in seqs : IsDfsPostOrder(g, r, q) } = { d.post : d \in dfs }
  /\ { t \in TreeCands(g, r) : IsDfsTree(g, r, t) } = { [V |-> R, E |-> d.tree] : d \in dfs }
  /\ ~IsDfsTree(g, r, [V |-> g.V \cup {0}, E |-> {}])
  \* removing the back edges of any depth-first search is an accepted acyclic version
  /\ \A d \in dfs :
       LET t == [V |-> R, E |-> d.tree] IN
       IsAcyclicSubgraph(g, r, [V |-> g.V, E |-> { e \in g.E : ~(e[1] \in R /\ e[1] \in Reach(t, e[2])) }])
  /\ IsAcyclicSubgraph(g, r, g) = IsAcyclicFrom(g, r)
  /\ \A e \in g.E : LET a == [V |-> g.V, E |-> g.E \ {e}] IN IsAcyclicSubgraph(g, r, a) = AcyclicSub2(g, r, a)
  /\ Cardinality(g.V) <= HeavyMax =>
       \A X \in SUBSET g.E : LET a == [V |-> g.V, E |-> X] IN IsAcyclicSubgraph(g, r, a) = AcyclicSub2(g, r, a)

GraphAgree(g) ==
  LET cl == Closure(g.E) IN
  /\ HasCycle(g) = ~(\E f \in Perms(g.V) : IsTopological(g, f))
  /\ \A f \in Perms(g.V) : IsTopological(g, f) = (\A e \in cl : \E i, j \in 1..Len(f) : i < j /\ f[i] = e[1] /\ f[j] = e[2])
  /\ \A v \in g.V : TransPred(g, v) = { e[1] : e \in { e \in cl : e[2] = v } }
  /\ HasCycle(g) = (\E v \in g.V : <<v, v>> \in cl)
  /\ \A v \in g.V : Unreachable(g, v) = g.V \ ({v} \cup { e[2] : e \in { e \in cl : e[1] = v } })

DefsAgree == GraphAgree(G) /\ \A r \in vertices : RootAgree(G, r)

-----------------------------------------------------------------------------
(* the expected values of falcon's unit tests                              *)

Gr(V, E) == [V |-> V, E |-> E]
Wiki  == Gr(1..6, {<<1,2>>, <<2,3>>, <<2,4>>, <<2,6>>, <<3,5>>, <<4,5>>, <<5,2>>})     \* create_test_graph
InLp  == Gr(1..3, {<<1,2>>, <<1,3>>, <<2,1>>, <<2,3>>})                                \* start node in loop
Gr2   == Gr(0..4, {<<0,1>>, <<0,2>>, <<1,3>>, <<2,3>>, <<2,4>>, <<3,0>>, <<3,4>>})       \* idoms graph2
Topo  == Gr(1..7, {<<1,2>>, <<2,5>>, <<2,3>>, <<3,4>>, <<3,7>>, <<5,3>>, <<5,6>>, <<6,7>>, <<7,4>>})
Irred == Gr(1..3, {<<1,2>>, <<1,3>>, <<2,3>>, <<3,2>>})
Redu  == Gr(1..4, {<<1,2>>, <<2,3>>, <<2,4>>, <<3,1>>})
Nested== Gr(1..5, {<<1,2>>, <<2,3>>, <<3,4>>, <<3,2>>, <<4,5>>, <<4,1>>})
Disj  == Gr(1..5, {<<1,2>>, <<2,3>>, <<2,1>>, <<3,4>>, <<4,5>>, <<4,3>>})
SelfL == Gr(1..3, {<<1,2>>, <<2,3>>, <<2,2>>})
SameH == Gr(1..3, {<<1,2>>, <<1,3>>, <<2,1>>, <<3,1>>})
DfsT  == Gr(1..5, {<<1,2>>, <<1,3>>, <<1,4>>, <<2,5>>, <<3,2>>})
LoopT == Gr(1..4, {<<1,2>>, <<2,2>>, <<2,3>>, <<3,1>>, <<3,4>>, <<4,4>>})
Unre  == Gr(1..5, {<<1,2>>, <<4,5>>, <<4,2>>})

ASSUME IsDfsPreOrder(Wiki, 1, <<1,2,6,4,5,3>>) /\ IsDfsPreOrder(Wiki, 5, <<5,2,6,4,3>>)
ASSUME ~IsDfsPreOrder(Wiki, 1, <<1,2,3,4,5,6>>) /\ IsDfsPreOrder(Wiki, 1, <<1,2,3,5,4,6>>)
ASSUME IsDfsPostOrder(Wiki, 1, <<5,3,4,6,2,1>>) /\ IsDfsPostOrder(Wiki, 5, <<3,4,6,2,5>>)
ASSUME ~IsDfsPostOrder(Wiki, 1, <<3,5,4,6,2,1>>)
ASSUME [v \in 1..6 |-> DF(Wiki, 1, v)] = <<{}, {2}, {5}, {5}, {2}, {}>>
ASSUME [v \in 1..3 |-> DF(InLp, 1, v)] = <<{1}, {1,3}, {}>>
ASSUME IDomMap(DomRel(Wiki, 1), 1) = [v \in 2..6 |-> IF v = 2 THEN 1 ELSE 2]
ASSUME IDomMap(DomRel(Gr2, 0), 0) = [v \in 1..4 |-> 0]
ASSUME [v \in 1..6 |-> Doms(Wiki, 1, v)] = <<{1}, {1,2}, {1,2,3}, {1,2,4}, {1,2,5}, {1,2,6}>>
ASSUME DomTreeEdges(DomRel(Wiki, 1), 1) = {<<1,2>>, <<2,3>>, <<2,4>>, <<2,5>>, <<2,6>>}
ASSUME TransPred(Wiki, 1) = {} /\ TransPred(Wiki, 2) = {1,2,3,4,5}
ASSUME HasCycle(Wiki) /\ ~HasCycle(Topo) /\ IsTopological(Topo, <<1,2,5,6,3,7,4>>)
ASSUME NoPreds(Wiki) = {1} /\ NoSuccs(Wiki) = {6}
ASSUME Reach(Unre, 1) = {1,2} /\ Unreachable(Unre, 1) = {3,4,5}
ASSUME ~IsAcyclicFrom(Wiki, 1) /\ IsAcyclicFrom(Gr(1..3, {<<1,2>>, <<1,3>>, <<2,3>>}), 1)
ASSUME ~Reducible(Irred, 1) /\ Reducible(Redu, 1)
ASSUME Loops(Wiki, 1) = {<<2, {2,3,4,5}>>}
ASSUME Loops(Nested, 1) = {<<1, {1,2,3,4}>>, <<2, {2,3}>>}
ASSUME Loops(Disj, 1) = {<<1, {1,2}>>, <<3, {3,4}>>}
ASSUME Loops(SelfL, 1) = {<<2, {2}>>}
ASSUME Loops(SameH, 1) = {<<1, {1,2,3}>>}
ASSUME IsDfsTree(DfsT, 1, Gr(1..5, {<<1,4>>, <<1,3>>, <<3,2>>, <<2,5>>}))
ASSUME Loops(LoopT, 1) = {<<1, {1,2,3}>>, <<2, {2}>>, <<4, {4}>>} /\ NestOf(LoopT, DomRel(LoopT, 1)) = {<<1,2>>}
\* the dominance-based definitions simply ignore what the root does not reach
ASSUME IDomMap(DomRel(Unre, 1), 1) = [v \in {2} |-> 1] /\ DF(Unre, 1, 2) = {} /\ Reducible(Unre, 1)
=============================================================================
