CONSTANTS LimbBits = 3  MaxW = 6
SPECIFICATION SpecFlags
INVARIANT FlagsOK
CHECK_DEADLOCK FALSE
