-------------------------- MODULE MC_C02_RepoTests --------------------------
(***************************************************************************)
(* The expected values hard-coded in falcon's own MIPS lifter tests        *)
(* (hand-computed by other authors; transcribed mechanically by            *)
(* corpus/c02/extract_repo_tests.py into corpus/c02/repo_tests.ndjson)     *)
(* replayed through Mips.tla: an independent sanity check of the           *)
(* transcription of the manual.  No implementation is involved; a mismatch *)
(* is an error of the specification (or a test that encodes a lifter       *)
(* defect, listed in Waived with the reason) - never a VIOLATION.          *)
(*                                                                         *)
(* A record is a program (big-endian bytes at address 0), initial          *)
(* registers, data bytes, an address to run to, and one expectation.  The  *)
(* program is run on the machine with an explicit nPC built from MDecode / *)
(* MExec1 / MBranch.                                                       *)
(***************************************************************************)
EXTENDS Mips, TraceLib

MaxSteps == 200

RegIdx(n) == CHOOSE i \in 0..31 : n = "r" \o ToString(i)
InitState(e) ==
  LET find(nm) == { i \in 1..Len(e.regs) : e.regs[i].n = nm }
      val(nm)  == IF find(nm) = {} THEN <<0, 0, 0, 0>> ELSE e.regs[CHOOSE i \in find(nm) : TRUE].v
  IN [gpr |-> [i \in 1..32 |-> val("r" \o ToString(i - 1))], hi |-> val("hi"), lo |-> val("lo"),
      mem |-> e.mem, win |-> e.win]

Fetch(e, pc) == LET o == ToNatCap(pc, 100000) IN
                IF o + 4 <= Len(e.code) THEN <<e.code[o + 4], e.code[o + 3], e.code[o + 2], e.code[o + 1]>> ELSE <<>>

\* m = [k, st, pc, npc, mn]: k = "run" | "done" | "trap" | "unspec" | "lost"
RECURSIVE Run(_, _, _)
Run(e, m, n) ==
  IF m.k # "run" THEN m
  ELSE IF m.pc = e.until THEN [m EXCEPT !.k = "done"]
  ELSE IF n = 0 \/ Fetch(e, m.pc) = <<>> THEN [m EXCEPT !.k = "lost"]
  ELSE LET d == MDecode(Fetch(e, m.pc))  seq4 == Add(32, m.npc, N32(4)) IN
       IF d.mn = "?" THEN [m EXCEPT !.k = "unspec", !.mn = "reserved encoding"]
       ELSE IF MIsBranch(d.mn) THEN
            LET b == MBranch(d, m.st, m.pc) IN
            IF ~b.ok THEN [m EXCEPT !.k = "unspec", !.mn = "UNPREDICTABLE branch / unaligned target"]
            ELSE Run(e, TLCEval([m EXCEPT !.st = IF b.link >= 0 THEN MW(m.st, b.link, Add(32, m.pc, N32(8))) ELSE m.st,
                                          !.pc = m.npc, !.npc = IF b.taken THEN b.target ELSE seq4]), n - 1)
       ELSE LET r == MExec1(d, m.st, TRUE)[1] IN
            IF r.k = "ok" THEN Run(e, TLCEval([m EXCEPT !.st = r.st, !.pc = m.npc, !.npc = seq4]), n - 1)
            ELSE IF r.k = "trap" THEN [m EXCEPT !.k = "trap", !.mn = r.mn]
            ELSE [m EXCEPT !.k = "unspec", !.mn = r.why]

Final(e) == Run(e, [k |-> "run", st |-> InitState(e), pc |-> <<0, 0, 0, 0>>, npc |-> <<4, 0, 0, 0>>, mn |-> ""], MaxSteps)

Holds(e, m) ==
  LET x == e.expect IN
  CASE x.k = "trap" -> m.k = "trap" /\ m.mn = x.mn
    [] x.k = "reg"  -> m.k = "done" /\ MR(m.st, RegIdx(x.n)) = x.v
    [] x.k = "hi"   -> m.k = "done" /\ m.st.hi = x.v
    [] x.k = "lo"   -> m.k = "done" /\ m.st.lo = x.v
    [] x.k = "mem"  -> m.k = "done" /\ InWin(m.st, x.a, Len(x.bytes)) /\ LoadBytes(m.st, x.a, Len(x.bytes)) = x.bytes
    [] OTHER        -> FALSE

\* tests whose expectation encodes a defect of the lifter rather than the architecture:
\*   jr / jalr: the test jumps to the value the register has AFTER the delay slot (0xf + 1); the
\*   architectural target 0xf is unaligned, so the specification does not define the run at all
\*   (these come out as "unspec", not as mismatches, and are only listed for the record)
Waived == {}

VARIABLES l, nbad, nunspec
vars == <<l, nbad, nunspec>>
Init == l = 1 /\ nbad = 0 /\ nunspec = 0
Next ==
  /\ l <= NRec /\ l' = l + 1
  /\ LET e == Rec[l]  m == TLCEval(Final(e)) IN
     IF m.k = "unspec"
     THEN /\ PrintT(<<"REPO-TEST-UNSPEC", e.test, e.idx, m.mn>>) /\ nunspec' = nunspec + 1 /\ UNCHANGED nbad
     ELSE IF Holds(e, m) \/ <<e.test, e.idx>> \in Waived THEN UNCHANGED <<nbad, nunspec>>
     ELSE /\ PrintT(<<"REPO-TEST-MISMATCH", e.test, e.idx, e.expect, m.k, m.mn,
                      IF m.k = "done" /\ e.expect.k = "reg" THEN MR(m.st, RegIdx(e.expect.n)) ELSE <<>>,
                      IF m.k = "done" THEN <<m.st.hi, m.st.lo>> ELSE <<>>>>)
          /\ nbad' = nbad + 1 /\ UNCHANGED nunspec
Spec == Init /\ [][Next]_vars

AllMatch == nbad = 0
\* jr, jalr (2 assertions) as above; lh, lhu, lw, sh, ll use unaligned addresses (address error in the
\* architecture); the data address of the sc test is not recognised by the extraction script
FewUnspec == nunspec <= 9
=============================================================================
