--------------------------- MODULE MC_FixedPoint ---------------------------
(***************************************************************************)
(* Small-scope check of FixedPoint.tla itself (design evidence and a       *)
(* regression test of the specification; it does not depend on /repo).     *)
(*                                                                         *)
(* Enumerated: every location graph on 1..n (all 2^(n*n) edge sets: loops, *)
(* self-loops, start inside a loop, unreachable locations feeding          *)
(* reachable ones; start = 1 without loss of generality), every transfer   *)
(* table of the configured family, both values of force, and from there    *)
(* EVERY schedule of chaotic iteration (any dirty location next).          *)
(*                                                                         *)
(* Checked: see the invariants at the end.                                 *)
(***************************************************************************)
EXTENDS FixedPoint

CONSTANTS
  Lat,        \* lattice name
  Kind,       \* "genkill" | "mono" | "all"  : table family for locations of graphs with n \in NsFull
  NsFull,     \* graph sizes enumerated with the full family
  NsSmall,    \* graph sizes enumerated with the small hand-picked family SmallFam (a sample)
  Forces      \* subset of BOOLEAN

VARIABLES ph, P, s, k, lfp, mono
vars == <<ph, P, s, k, lfp, mono>>

-----------------------------------------------------------------------------
(* sanity of the lattices and of their declared heights (all of LatNames)  *)

IsLattice(lat) ==
  LET E == Elems(lat) IN
  /\ \A x \in E : Leq(lat, x, x)
  /\ \A x, y \in E : Leq(lat, x, y) /\ Leq(lat, y, x) => x = y
  /\ \A x, y, z \in E : Leq(lat, x, y) /\ Leq(lat, y, z) => Leq(lat, x, z)
  /\ \A x, y \in E : \E z \in E : /\ Leq(lat, x, z) /\ Leq(lat, y, z)
                                   /\ \A u \in E : Leq(lat, x, u) /\ Leq(lat, y, u) => Leq(lat, z, u)
  /\ \A x \in E : Leq(lat, 0, x)                             \* 0 is the bottom of every lattice here

RECURSIVE Longest(_,_)
Longest(lat, x) ==        \* longest strict chain upwards from x
  LET Up == { y \in Elems(lat) : Leq(lat, x, y) /\ y # x } IN
  IF Up = {} THEN 0
  ELSE LET hs == { Longest(lat, y) : y \in Up } IN 1 + (CHOOSE h \in hs : \A g \in hs : g <= h)

\* second formulations of Join: bit-wise or on the powersets, the constant-propagation meet table
\* on the flat lattices, max on the chain
ToSet(x)  == { i \in 0..2 : Bit(x, i) = 1 }
OfSet(S)  == CHOOSE x \in 0..7 : ToSet(x) = S
JoinAlt(lat, x, y) ==
  CASE lat \in {"pow1", "pow2", "pow3"} -> OfSet(ToSet(x) \cup ToSet(y))
    [] lat = "flat2" -> IF x = y THEN x ELSE IF x = 0 THEN y ELSE IF y = 0 THEN x ELSE 3
    [] lat = "flat3" -> IF x = y THEN x ELSE IF x = 0 THEN y ELSE IF y = 0 THEN x ELSE 4
    [] lat = "chain3" -> IF x <= y THEN y ELSE x

ASSUME \A lat \in LatNames :
         /\ IsLattice(lat)
         /\ Height(lat) = Longest(lat, 0)
         /\ \A x, y \in Elems(lat) : Join(lat, x, y) = JoinAlt(lat, x, y)
         /\ \A x, y \in ElemsO(lat) : JoinO(lat, x, y) = Lub(lat, {x, y} \ {None})
         /\ \A x \in ElemsO(lat) : LeqO(lat, None, x) /\ (LeqO(lat, x, None) <=> x = None)

-----------------------------------------------------------------------------
(* problem enumeration *)

SortedSeq(S) == CHOOSE q \in [1..Cardinality(S) -> S] : \A i, j \in 1..Cardinality(S) : i < j => q[i] < q[j]

Graph(n, E, f) ==
  [n |-> n, start |-> 1, lat |-> Lat, force |-> f, tab |-> <<>>,
   pred |-> [l \in 1..n |-> SortedSeq({ a \in 1..n : <<a, l>> \in E })],
   succ |-> [l \in 1..n |-> SortedSeq({ b \in 1..n : <<l, b>> \in E })]]

E0 == Elems(Lat)
KK == Cardinality(E0)
FunMono(f) == \A x, y \in E0 : Leq(Lat, x, y) => Leq(Lat, f[x], f[y])
GenKill    == { [x \in E0 |-> OfSet((ToSet(x) \ ToSet(kl)) \cup ToSet(g))] : g \in E0, kl \in E0 }
Funs       == CASE Kind = "genkill" -> GenKill
                [] Kind = "mono"    -> { f \in [E0 -> E0] : FunMono(f) }
                [] Kind = "all"     -> [E0 -> E0]

\* a small family for the larger graphs: two constants, identity, a swap of two incomparable
\* elements (1 and 2 are incomparable in pow2 / flat2 / flat3: the non-distributive case, two
\* different constants meeting at a join point), and for Kind = "all" two non-monotone members
TopE == CHOOSE t \in E0 : \A x \in E0 : Leq(Lat, x, t)
SmallFam ==
  { [x \in E0 |-> 1], [x \in E0 |-> x],
    [x \in E0 |-> IF x = 1 THEN 2 ELSE IF x = 2 THEN 1 ELSE x] }
  \cup (IF Kind = "all" THEN { [x \in E0 |-> 0],
                               [x \in E0 |-> IF x = 0 THEN 1 ELSE 0],
                               [x \in E0 |-> IF x = TopE THEN 1 ELSE x] } ELSE {})

\* rows: the "no input" row first.  It is only ever used at the start location; elsewhere it is
\* fixed to 0.  For gen/kill tables it is the clients' convention trans(None) = gen, for the
\* monotone family it ranges over everything below f(bottom), for "all" over everything.
NoneRows(f, isStart) ==
  IF ~isStart THEN {0}
  ELSE IF Kind = "all" THEN E0
  ELSE IF Kind = "genkill" THEN { f[0] }                    \* trans(None) = gen = f(empty set)
  ELSE { b \in E0 : Leq(Lat, b, f[0]) }
Row(f, b) == <<b>> \o [i \in 1..KK |-> f[i - 1]]
Rows(n, isStart) ==
  LET fam == IF n \in NsFull THEN Funs ELSE SmallFam IN
  UNION { { Row(f, b) : b \in NoneRows(f, isStart) } : f \in fam }

Init == /\ ph = "graph"
        /\ \E n \in NsFull \cup NsSmall : \E E \in SUBSET ((1..n) \X (1..n)) : \E f \in Forces :
             P = Graph(n, E, f)
        /\ s = 0 /\ k = 0 /\ lfp = 0 /\ mono = FALSE

PickTable ==
  /\ ph = "graph"
  /\ \E t1 \in Rows(P.n, TRUE) : \E rest \in [2..P.n -> Rows(P.n, FALSE)] :
       P' = [P EXCEPT !.tab = [l \in 1..P.n |-> IF l = 1 THEN t1 ELSE rest[l]]]
  /\ ph' = "run" /\ k' = 0
  /\ s' = InitState(P')
  /\ lfp' = LFP(P')
  /\ mono' = Monotone(P')

Process ==
  /\ ph = "run"
  /\ \E l \in s.dirty : CanProcess(P, s, l) /\ s' = Step(P, s, l)
  /\ k' = k + 1
  /\ UNCHANGED <<ph, P, lfp, mono>>

Next == PickTable \/ Process
Spec == Init /\ [][Next]_vars

-----------------------------------------------------------------------------
(* what is checked *)

Run == ph = "run"

\* 1. (k = 0 only: once per problem) for a monotone table the Kleene limit is a solution of the
\*    equations, its domain is Reach, and it is below EVERY solution (brute force over all maps,
\*    for graphs of <= 2 locations and for the 1-bit lattice)
AllMaps == [Locs(P) -> ElemsO(Lat)]
BruteForce == P.n <= 2 \/ Lat = "pow1"      \* at most 27 maps
LfpIsLeastSolution ==
  Run /\ k = 0 /\ mono =>
    /\ IsSolution(P, lfp)
    /\ lfp = F(P, lfp)
    /\ BruteForce => \A m \in AllMaps : IsSolution(P, m) => \A l \in Locs(P) : LeqO(Lat, lfp[l], m[l])
\* 1b. the two readings of "solution" agree: IsSolution(m) iff m is a fixed point of the whole-map
\*     function F whose domain is not larger than Reach
SolutionIsFixedPointOfF ==
  Run /\ k = 0 /\ BruteForce => \A m \in AllMaps : IsSolution(P, m) <=> (m = F(P, m) /\ Dom(m) \subseteq Reach(P))

\* 2. chaotic iteration stays below the least solution and never reports an ordering error
BelowLfp   == Run /\ mono => /\ s.oc = "run"
                             /\ \A l \in Locs(P) : LeqO(Lat, s.st[l], lfp[l])
\* 3. every schedule ends in the least solution, defined on exactly the reachable locations
DoneIsLfp  == Run /\ mono /\ Done(s) => s.st = lfp /\ Dom(s.st) = Reach(P)
\* 4. whatever the table: Done is never a non-solution
DoneIsSolution ==
  Run /\ Done(s) => IF P.force THEN IsPostSolution(P, s.st) ELSE IsSolution(P, s.st)
ForceOnlyMattersWhenNotMonotone == Run /\ mono /\ Done(s) => IsSolution(P, s.st)
\* 5. the work-list invariant behind 4
WorkList ==
  Run /\ s.oc = "run" =>
    /\ s.dirty \subseteq Reach(P) /\ Dom(s.st) \subseteq Reach(P)
    /\ \A l \in s.dirty : Live(P, s.st, l)
    /\ \A l \in Dom(s.st) : Succ(P, l) \subseteq Dom(s.st) \cup s.dirty
    /\ \A l \in Dom(s.st) \ s.dirty :
         IF P.force THEN Leq(Lat, Rhs(P, s.st, l), s.st[l]) ELSE s.st[l] = Rhs(P, s.st, l)
\* 6. number of Process steps of any schedule
StepBound == Run => k <= Bound(P)
\* 7. every outcome of the model is acceptable to the judge used on the real solver, including a
\*    step-budget error at any point where the solver could give up (budget k, k or k+1 calls made)
JudgeAcceptsModel ==
  Run =>
    /\ Done(s) => Judge(P, -1, k, [ok |-> s.st]) = "" /\ Judge(P, k, k, [ok |-> s.st]) = ""
    /\ s.oc = "ErrOrdering" => Judge(P, -1, k, [err |-> "FixedPointOrdering"]) = ""
    /\ (s.oc = "run" /\ s.dirty # {}) =>
         /\ Judge(P, k, k, [err |-> "FixedPointMaxSteps"]) = ""
         /\ k > 0 => Judge(P, k - 1, k, [err |-> "FixedPointMaxSteps"]) = ""
\*    ... and rejects the obviously wrong ones
JudgeRejects ==
  Run =>
    /\ mono => Judge(P, -1, k, [err |-> "FixedPointOrdering"]) # ""
    /\ (mono /\ s.st # lfp) => Judge(P, -1, k, [ok |-> s.st]) # ""
    /\ Judge(P, -1, k, [panic |-> "x"]) # ""
    /\ Judge(P, k + 1, k, [err |-> "FixedPointMaxSteps"]) # ""
    /\ Judge(P, -1, k, [err |-> "FixedPointMaxSteps"]) # ""

\* 8. termination under finite height: every Process step strictly decreases a measure
Rank(x) == IF x = None THEN 0 ELSE 1 + Longest(Lat, 0) - Longest(Lat, x)   \* grows with x; only differences matter
Measure(st, d) ==
  LET RECURSIVE Sum(_)
      Sum(l) == IF l = 0 THEN 0 ELSE Rank(st[l]) + Sum(l - 1)
  IN (P.n * (Height(Lat) + 2) - Sum(P.n)) * (P.n + 1) + Cardinality(d)
Terminates ==
  [][ (ph = "run" /\ s.oc = "run") => (s'.oc = "ErrOrdering" \/ Measure(s'.st, s'.dirty) < Measure(s.st, s.dirty)) ]_vars
=============================================================================
