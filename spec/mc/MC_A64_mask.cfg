CONSTANTS LimbBits = 8  MaxW = 0
SPECIFICATION SpecMask
INVARIANT MaskOK
CHECK_DEADLOCK FALSE
