CONSTANTS MaxOps = 2  Endian = "big"
SPECIFICATION Spec
INVARIANT Refines
CHECK_DEADLOCK FALSE
