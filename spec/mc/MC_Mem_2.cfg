\* every history of <= 2 operations over the full alphabet (4 012 histories)
CONSTANTS LimbBits = 8  MaxOps = 2  PermN = 7
          Alphabet = {"store", "setperm", "clone", "new"}
SPECIFICATION Spec
INVARIANT DesignOK
INVARIANT Dump
PROPERTY StoresKeepPerms
PROPERTY CloneEqual
CHECK_DEADLOCK FALSE
