CONSTANT LimbBits = 8
CONSTANT OpSel = "load"
SPECIFICATION Spec
INVARIANTS Deterministic Frame StoreExact ErrorsAreReal
CHECK_DEADLOCK FALSE
