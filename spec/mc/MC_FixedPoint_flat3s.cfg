CONSTANTS Lat = "flat2"  Kind = "mono"  NsFull = {}  NsSmall = {3}  Forces = {FALSE}
SPECIFICATION Spec
INVARIANTS LfpIsLeastSolution SolutionIsFixedPointOfF BelowLfp DoneIsLfp DoneIsSolution ForceOnlyMattersWhenNotMonotone WorkList StepBound JudgeAcceptsModel JudgeRejects
PROPERTY Terminates
CHECK_DEADLOCK FALSE
