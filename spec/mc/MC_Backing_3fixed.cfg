\* with the proposed repairs (parts/C16.fix-1, fix-2): plain refinement, nothing is lost, get never panics
CONSTANTS MaxOps = 3  Lens = {0, 1, 2, 3, 4}  WithSet32 = FALSE  FixEmpty = TRUE  FixGet = TRUE
SPECIFICATION Spec
INVARIANT DesignOK
CHECK_DEADLOCK FALSE
