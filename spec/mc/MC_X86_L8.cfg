CONSTANTS LimbBits = 8  MinW = 8  MaxW = 8  XSel = {0, 1, 2, 15, 16, 85, 127, 128, 129, 170, 240, 254, 255}
SPECIFICATION Spec
INVARIANT Inv
CHECK_DEADLOCK FALSE
