CONSTANTS LimbBits = 8  AddrBits = 64  N = 3
SPECIFICATION Spec
INVARIANT AllOK
PROPERTY Terminates
CHECK_DEADLOCK FALSE
