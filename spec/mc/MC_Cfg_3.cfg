CONSTANTS N = 3  MaxIns = 1  K = 6  EntryNone = FALSE  WithAppend = FALSE  MaxCondEdges = 3
SPECIFICATION Spec
INVARIANT AllOK
CHECK_DEADLOCK FALSE
