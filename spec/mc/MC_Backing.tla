----------------------------- MODULE MC_Backing -----------------------------
(***************************************************************************)
(* Small-scope exploration of Backing.tla (C16) in lock-step with the      *)
(* implementation-shaped BackingImpl.tla.                                  *)
(*                                                                         *)
(* 1. Refinement (design evidence): after every history the transcribed    *)
(*    BTreeMap of sections is disjoint and holds exactly the design-level  *)
(*    cells - minus the bytes the known empty-write defect drops when the  *)
(*    transcription is taken as it is (FixEmpty = FALSE), and exactly the  *)
(*    cells with the proposed repair (FixEmpty = TRUE); every transcribed  *)
(*    read agrees with the design-level read, except that the unrepaired   *)
(*    get panics exactly when the range runs off the mapped bytes.         *)
(*                                                                         *)
(* 2. Behaviour generation (specification -> implementation): Dump prints  *)
(*    every history as one JSON line; `c16 --mode gen` replays them into   *)
(*    the real backing::Memory and Trace_C16 judges the recorded reads.    *)
(*                                                                         *)
(* Scope: <= MaxOps writes set_memory(start 0..6, length in Lens) - empty, *)
(* nested, adjacent and identical-start regions all occur - and, when      *)
(* WithSet32, set32 at the offsets that lie within one region.  Byte j of  *)
(* the k-th write is 16*k + j, its permission bits are k.                  *)
(***************************************************************************)
EXTENDS BackingImpl, Json

CONSTANTS MaxOps, Lens, WithSet32, FixEmpty, FixGet

VARIABLES cells, secs, lost, hist
vars == <<cells, secs, lost, hist>>

W0 == 16                                        \* key of window offset 0
K(off) == W0 + off
Window == (W0 - 8)..(W0 + 18)                   \* every key a history can touch, +- 8
ScanBits == <<16, 32, 64>>

Tag(k, n) == [j \in 1..n |-> 16 * k + j - 1]

Init == cells = EmptyCells /\ secs = NoSecs /\ lost = {} /\ hist = <<>>

Next ==
  /\ Len(hist) < MaxOps
  /\ LET k == Len(hist) + 1 IN
     \/ \E off \in 0..6, n \in Lens :
          /\ cells' = SetMemory(cells, K(off), Tag(k, n), k, k)
          /\ secs'  = ImplSetMemory(secs, K(off), Tag(k, n), k, FixEmpty)
          /\ lost'  = IF FixEmpty THEN {} ELSE LostAfterWrite(cells, lost, K(off), Tag(k, n))
          /\ hist'  = Append(hist, [ev |-> "set_memory", off |-> off, d |-> Tag(k, n), p |-> k])
     \/ \E off \in 0..9, e \in {"little", "big"} :
          /\ WithSet32 /\ lost = {} /\ InOneRegion(cells, K(off))
          /\ cells' = Set32(cells, e, K(off), Tag(k, 4))
          /\ secs'  = ImplSet32(secs, e, K(off), Tag(k, 4))
          /\ hist'  = Append(hist, [ev |-> "set32", off |-> off, endian |-> e, v |-> [w |-> 32, v |-> Tag(k, 4)]])
          /\ UNCHANGED lost
Spec == Init /\ [][Next]_vars

Dump == PrintT(<<"HIST", ToJson([ops |-> hist,
                                 scan |-> [lo |-> -8, n |-> 27, bits |-> ScanBits]])>>)

(* ----------------------------- refinement ------------------------------ *)
Surv == Surviving(cells, lost)

Refines ==
  LET S == AsSections(secs) IN SectionsDisjoint(S) /\ SectionsRepresent(Surv, S)

RunsOff(c, a, n) == a \in DOMAIN c /\ ~AllMapped(c, a, n)

ReadsAgree ==
  \A a \in Window :
    /\ ImplGet8(secs, a) = Get8(Surv, a)
    /\ ImplPerm(secs, a) = Perm(Surv, a)
    /\ \A e \in {"little", "big"} :
         /\ \A i \in 1..Len(ScanBits) :
              LET bits == ScanBits[i] IN
              ImplGet(secs, e, a, bits, FixGet) =
                 (IF ~FixGet /\ RunsOff(Surv, a, bits \div 8) THEN "panic" ELSE Get(Surv, e, a, bits))
         /\ InOneRegion(Surv, a) => ImplGet32(secs, e, a) = Get32(Surv, e, a)
         /\ ImplGet32(secs, e, a) \in {NoVal, Get(Surv, e, a, 32)}
    /\ InOneRegion(Surv, a) => ImplSet32Outcome(secs, a) = "ok"

\* second formulation of "most recent region covering it": search the history backwards
RECURSIVE LastCover(_,_)
LastCover(i, x) ==
  IF i = 0 THEN 0
  ELSE IF hist[i].ev = "set_memory" /\ K(hist[i].off) <= x /\ x < K(hist[i].off) + Len(hist[i].d) THEN i
  ELSE LastCover(i - 1, x)
MostRecent ==
  \A x \in Window :
    LET i == LastCover(Len(hist), x) IN
    IF i = 0 THEN x \notin DOMAIN cells
    ELSE /\ x \in DOMAIN cells /\ cells[x].p = hist[i].p /\ cells[x].r = i
         /\ (\A j \in 1..Len(hist) : hist[j].ev # "set32") => cells[x].b = hist[i].d[x - K(hist[i].off) + 1]

DesignOK == Refines /\ ReadsAgree /\ MostRecent
=============================================================================
