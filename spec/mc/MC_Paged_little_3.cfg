CONSTANTS MaxOps = 3  Endian = "little"
SPECIFICATION Spec
INVARIANT Refines
CHECK_DEADLOCK FALSE
