CONSTANTS MaxN = 4  MaxLen = 3  W = 4  MaxBr = 2  WithManual = FALSE  Mutant = "none"
SPECIFICATION Spec
INVARIANT Recovered
CHECK_DEADLOCK FALSE
