------------------------------ MODULE MC_ILWF ------------------------------
(***************************************************************************)
(* Small-scope model checking of the definitions C05 relies on.            *)
(*                                                                         *)
(* TLC enumerates every expression tree of depth <= MaxD over a small set  *)
(* of atoms (constants and scalars of widths 1..3), built as RAW nodes, so *)
(* that ill-sorted trees are enumerated as well.  For each tree e:         *)
(*                                                                         *)
(*  SortAgrees   ILWF!SortW (the one-pass sort function the trace spec     *)
(*               uses) = IF IL!WellFormedExpr(e) THEN IL!Bits(e) ELSE 0.   *)
(*  Closed       the builders IL!MkBin / MkExt / MkIte applied to a        *)
(*               well-formed e and any atom return Err("Sort") or a        *)
(*               well-formed node, and refuse exactly the raw nodes that   *)
(*               are ill-sorted.                                           *)
(*  Complement   for every well-formed 1-bit e and each syntactic negation *)
(*               N(e) recognised by ILWF!NegatedBy: under every valuation  *)
(*               under which e evaluates, exactly one of e, N(e) is        *)
(*               enabled (the complement rule, from BV/IL by enumeration); *)
(*               and ILWF!ComplementPair recognises the pair.              *)
(*  Recogniser   whenever ComplementPair accepts the two children of a     *)
(*               node as a guard pair, they are exclusive and exhaustive   *)
(*               under every valuation (no false positives on this scope). *)
(*                                                                         *)
(* The ASSUMEs are unit tests of GuardsDeterministic and WellFormedCfg on  *)
(* hand-written guards and graphs (both verdicts).                         *)
(***************************************************************************)
EXTENDS ILWF

CONSTANT MaxD

(* ------------------------------- atoms --------------------------------- *)
C(w, n) == [k |-> "const", w |-> w, v |-> FromNat(w, n)]
S(n, w) == [k |-> "scalar", n |-> n, w |-> w, ssa |-> -1]

\* scalar names have a fixed width, so that one valuation serves every tree
Atoms == << C(1, 0), C(1, 1), C(2, 1), C(2, 3), C(3, 5),
            S("p", 1), S("q", 1), S("x", 2), S("z", 3) >>
NA == Len(Atoms)

BinKinds == ArithOps \cup CmpOps
RawBin(op, a, b)   == [k |-> op, a |-> a, b |-> b]
RawExt(op, wt, a)  == [k |-> op, w |-> wt, a |-> a]
RawIte(c, a, b)    == [k |-> "ite", c |-> c, a |-> a, b |-> b]
ExtWidths == 1..4

VARIABLES e, d
vars == <<e, d>>

Init == d = 0 /\ \E i \in 1..NA : e = Atoms[i]
Next ==
  /\ d < MaxD
  /\ d' = d + 1
  /\ \E i \in 1..NA :
       \/ \E op \in BinKinds : e' = RawBin(op, e, Atoms[i]) \/ e' = RawBin(op, Atoms[i], e)
       \/ \E op \in ExtOps : \E wt \in ExtWidths : i = 1 /\ e' = RawExt(op, wt, e)
       \/ \E j \in 1..NA : \/ e' = RawIte(Atoms[i], e, Atoms[j])
                           \/ e' = RawIte(e, Atoms[i], Atoms[j])
Spec == Init /\ [][Next]_vars

(* ----------------------------- invariants ------------------------------ *)
SortAgrees == SortW(e) = (IF WellFormedExpr(e) THEN Bits(e) ELSE 0)

BuilderOK(r, raw) ==
  IF IsOk(r) THEN SameExpr(r.ok, raw) /\ WellFormedExpr(r.ok) /\ SortW(r.ok) = Bits(r.ok)
  ELSE r = Err("Sort") /\ ~WellFormedExpr(raw) /\ SortW(raw) = 0

Closed ==
  (d < MaxD /\ WellFormedExpr(e)) =>
    \A i \in 1..NA :
      /\ \A op \in BinKinds : /\ BuilderOK(MkBin(op, e, Atoms[i]), RawBin(op, e, Atoms[i]))
                              /\ BuilderOK(MkBin(op, Atoms[i], e), RawBin(op, Atoms[i], e))
      /\ \A op \in ExtOps : \A wt \in 0..5 : BuilderOK(MkExt(op, wt, e), RawExt(op, wt, e))
      /\ \A j \in 1..NA : /\ BuilderOK(MkIte(Atoms[i], e, Atoms[j]), RawIte(Atoms[i], e, Atoms[j]))
                          /\ BuilderOK(MkIte(e, Atoms[i], Atoms[j]), RawIte(e, Atoms[i], Atoms[j]))

\* every valuation of p, q (1 bit), x (2 bits), z (3 bits)
Envs == { [p |-> Val(1, FromNat(1, a)), q |-> Val(1, FromNat(1, b)),
           x |-> Val(2, FromNat(2, c)), z |-> Val(3, FromNat(3, f))] :
          a \in 0..1, b \in 0..1, c \in 0..3, f \in 0..7 }

\* the syntactic negations of a 1-bit expression g that ILWF!NegatedBy recognises
Negations(g) ==
  << RawBin("cmpeq", g, C(1, 0)), RawBin("cmpeq", C(1, 0), g),
     RawBin("cmpneq", g, C(1, 1)), RawBin("cmpneq", C(1, 1), g),
     RawBin("xor", g, C(1, 1)), RawBin("xor", C(1, 1), g) >>
   \o (IF g.k = "cmpeq" THEN << RawBin("cmpneq", g.a, g.b), RawBin("cmpneq", g.b, g.a) >> ELSE <<>>)

ExclusiveExhaustive(g, h) ==
  \A env \in Envs : IsOk(Eval(g, env)) => NumEnabled(<<g, h>>, env) = 1

Complement ==
  (d < MaxD /\ WellFormedExpr(e) /\ Bits(e) = 1) =>
    LET ns == Negations(e) IN
    \A k \in 1..Len(ns) :
      /\ WellFormedExpr(ns[k]) /\ Bits(ns[k]) = 1
      /\ ComplementPair(<<e, ns[k]>>) /\ ComplementPair(<<ns[k], e>>)
      /\ ExclusiveExhaustive(e, ns[k])

Recogniser ==
  (e.k \in BinKinds /\ WellFormedExpr(e.a) /\ WellFormedExpr(e.b) /\ Bits(e.a) = 1 /\ Bits(e.b) = 1
     /\ ComplementPair(<<e.a, e.b>>))
  => ExclusiveExhaustive(e.a, e.b)

\* the non-negations are not taken for complements
NotComplement ==
  (WellFormedExpr(e) /\ Bits(e) = 1) =>
    /\ ~ComplementPair(<<e, e>>)
    /\ ~ComplementPair(<<e, RawBin("cmpeq", e, C(1, 1))>>)
    /\ ~ComplementPair(<<e, RawBin("cmpneq", e, C(1, 0))>>)
    /\ ~ComplementPair(<<e, [k |-> "none"]>>)

AllHold == SortAgrees /\ Closed /\ Complement /\ Recogniser /\ NotComplement

(* ------------------- unit tests: GuardsDeterministic ------------------- *)
X32 == S("x", 32)  Y32 == S("y", 32)  X3 == S("a", 3)  Y3 == S("b", 3)
None == [k |-> "none"]
Bin(op, a, b) == RawBin(op, a, b)
NoRv == <<>>
K32(n) == C(32, n)
Row(xv, yv) == << [n |-> "x", val |-> Val(32, FromNat(32, xv))], [n |-> "y", val |-> Val(32, FromNat(32, yv))] >>

ASSUME GuardsDeterministic(<<None>>, NoRv)
ASSUME ~GuardsDeterministic(<<None, None>>, NoRv)
ASSUME ~GuardsDeterministic(<<S("p", 1), None>>, NoRv)
ASSUME ~GuardsDeterministic(<<S("p", 1)>>, NoRv)                      \* nothing enabled when p = 0
ASSUME GuardsDeterministic(<<S("p", 1), Bin("cmpeq", S("p", 1), C(1, 0))>>, NoRv)
ASSUME ~GuardsDeterministic(<<S("p", 1), Bin("cmpeq", S("p", 1), C(1, 1))>>, NoRv)
ASSUME ~GuardsDeterministic(<<S("p", 1), S("q", 1)>>, NoRv)
\* three-way split, 6 bits: exhaustive enumeration
ASSUME GuardsDeterministic(<<Bin("cmpltu", X3, Y3), Bin("cmpeq", X3, Y3), Bin("cmpltu", Y3, X3)>>, NoRv)
ASSUME ~GuardsDeterministic(<<Bin("cmpltu", X3, Y3), Bin("cmpltu", Y3, X3)>>, NoRv)
ASSUME ~GuardsDeterministic(<<Bin("cmpltu", X3, Y3), Bin("cmpeq", X3, Y3), Bin("cmplts", Y3, X3)>>, NoRv)
\* more than 12 bits: complement rule
ASSUME GuardsDeterministic(<<Bin("cmpeq", X32, K32(0)), Bin("cmpneq", X32, K32(0))>>, NoRv)
ASSUME GuardsDeterministic(<<Bin("cmpltu", X32, Y32), Bin("cmpeq", Bin("cmpltu", X32, Y32), C(1, 0))>>, NoRv)
\* more than 12 bits, no complement: boundary product set (equal / unequal operands)
ASSUME GuardsDeterministic(<<Bin("cmplts", X32, K32(0)), Bin("cmpeq", X32, K32(0)), Bin("cmplts", K32(0), X32)>>, NoRv)
ASSUME ~GuardsDeterministic(<<Bin("cmpltu", X32, Y32), Bin("cmpltu", Y32, X32)>>, NoRv)
ASSUME ~GuardsDeterministic(<<Bin("cmpeq", X32, K32(0)), Bin("cmpeq", X32, K32(0))>>, NoRv)
\* a defect only a recorded valuation reaches
ASSUME GuardsDeterministic(<<Bin("cmpeq", X32, K32(305419896)), Bin("cmpeq", Bin("cmpeq", X32, K32(305419896)), C(1, 0))>>, NoRv)
ASSUME LET gs == <<Bin("cmpltu", X32, K32(305419896)), Bin("cmpltu", K32(305419897), X32), Bin("cmpeq", X32, K32(305419896))>>
       IN /\ GuardsDeterministic(gs, NoRv)                                  \* the boundary set misses x = 305419897
          /\ GuardsDeterministic(gs, <<Row(305419896, 0)>>)
          /\ ~GuardsDeterministic(gs, <<Row(7, 0), Row(305419897, 0)>>)
          /\ GuardsDeterministic(gs, << << [n |-> "y", val |-> Val(32, FromNat(32, 1))] >> >>)  \* a row that does not cover x is not used
\* at most one (exit block with out-edges)
ASSUME GuardsOneOf(<<S("p", 1)>>, NoRv, 0) /\ ~GuardsOneOf(<<S("p", 1), None>>, NoRv, 0)

(* ---------------------- unit tests: WellFormedCfg ---------------------- *)
R32(n) == S(n, 32)
Assign(dst, src) == [k |-> "assign", dst |-> dst, src |-> src]
Blk(i, ops) == [i |-> i, ops |-> ops]
Edge(h, t, c) == [h |-> h, t |-> t, c |-> c]
G(bs, es, en, ex) == [blocks |-> bs, edges |-> es, entry |-> en, exit |-> ex]
Nop == [k |-> "nop"]
P == S("p", 1)
NotP == Bin("cmpeq", P, C(1, 0))

Straight == G(<<Blk(0, <<Assign(R32("r"), Bin("add", R32("r"), K32(1)))>>)>>, <<>>, 0, 0)
Diamond  == G(<<Blk(0, <<Nop>>), Blk(1, <<Nop>>), Blk(2, <<>>)>>,
              <<Edge(0, 1, P), Edge(0, 2, NotP), Edge(1, 2, None)>>, 0, 2)
ASSUME WellFormedCfg(Straight, NoRv) /\ WellFormedCfg(Diamond, NoRv)
\* loop whose head is left by the exit (rep-prefix shape)
ASSUME WellFormedCfg(G(<<Blk(0, <<>>), Blk(1, <<Nop>>), Blk(2, <<>>)>>,
                       <<Edge(0, 1, P), Edge(0, 2, NotP), Edge(1, 0, None)>>, 0, 2), NoRv)
\* an unreachable stray block is not judged for determinism, but its operations are
ASSUME WellFormedCfg(G(<<Blk(0, <<>>), Blk(1, <<Nop>>)>>, <<>>, 1, 1), NoRv)
ASSUME ~WellFormedCfg(G(<<Blk(0, <<Assign(P, K32(1))>>), Blk(1, <<Nop>>)>>, <<>>, 1, 1), NoRv)
\* each clause
ASSUME ~WellFormedCfg([Straight EXCEPT !.exit = -1], NoRv)
ASSUME ~WellFormedCfg([Straight EXCEPT !.entry = 7], NoRv)
ASSUME ~WellFormedCfg(G(<<Blk(0, <<Nop>>), Blk(1, <<Nop>>)>>, <<>>, 0, 1), NoRv)                 \* exit unreachable
ASSUME ~WellFormedCfg(G(<<Blk(0, <<Nop>>), Blk(1, <<Nop>>)>>, <<Edge(0, 3, None)>>, 0, 0), NoRv)  \* edge to a missing block
ASSUME ~WellFormedCfg(G(<<Blk(0, <<Nop>>), Blk(0, <<Nop>>)>>, <<>>, 0, 0), NoRv)                  \* duplicate index
ASSUME ~WellFormedCfg([Diamond EXCEPT !.edges[2].c = P], NoRv)                                   \* both guards p
ASSUME ~WellFormedCfg([Diamond EXCEPT !.edges[2].c = None], NoRv)
ASSUME ~WellFormedCfg([Diamond EXCEPT !.edges[1].c = R32("r")], NoRv)                            \* 32-bit guard
ASSUME ~WellFormedCfg(G(<<Blk(0, <<Nop>>), Blk(1, <<Nop>>), Blk(2, <<>>)>>,
                        <<Edge(0, 1, P), Edge(0, 2, NotP)>>, 0, 2), NoRv)                         \* block 1: dead end
ASSUME ~WellFormedOp(Assign(P, K32(1)))                                                          \* 32 bits into 1
ASSUME ~WellFormedOp(Assign(R32("r"), Bin("add", R32("r"), C(8, 1))))                            \* ill-sorted source
ASSUME WellFormedOp([k |-> "load", dst |-> R32("r"), idx |-> R32("a")])
ASSUME ~WellFormedOp([k |-> "load", dst |-> S("f", 1), idx |-> R32("a")])                         \* 1-bit load
ASSUME ~WellFormedOp([k |-> "load", dst |-> S("f", 12), idx |-> R32("a")])
ASSUME ~WellFormedOp([k |-> "load", dst |-> R32("r"), idx |-> S("w", 128)])                       \* 128-bit address
ASSUME WellFormedOp([k |-> "store", idx |-> S("a", 64), src |-> S("v", 128)])
ASSUME ~WellFormedOp([k |-> "store", idx |-> S("a", 64), src |-> S("v", 4)])
ASSUME WellFormedOp([k |-> "branch", target |-> S("a", 64)]) /\ ~WellFormedOp([k |-> "branch", target |-> S("a", 65)])
ASSUME WellFormedOp([k |-> "intrinsic", mn |-> "x", args |-> <<>>, written |-> None, read |-> [k |-> "some", l |-> <<R32("r")>>]])
ASSUME ~WellFormedOp([k |-> "intrinsic", mn |-> "x", args |-> <<Bin("add", R32("r"), C(8, 1))>>, written |-> None, read |-> None])
\* a lift: successors
Lift(ins, succ) == [ins |-> ins, succ |-> succ]
ASSUME WellFormedLift(Lift(<<Straight, Diamond>>, <<>>), NoRv)                     \* return / indirect branch: no static successor
ASSUME WellFormedLift(Lift(<<Straight>>, <<[c |-> None]>>), NoRv)
ASSUME WellFormedLift(Lift(<<Straight>>, <<[c |-> NotP], [c |-> P]>>), NoRv)
ASSUME ~WellFormedLift(Lift(<<Straight>>, <<[c |-> NotP], [c |-> P], [c |-> None]>>), NoRv)
ASSUME ~WellFormedLift(Lift(<<Straight>>, <<[c |-> P]>>), NoRv)
ASSUME ~WellFormedLift(Lift(<<Straight, [Straight EXCEPT !.exit = -1]>>, <<[c |-> None]>>), NoRv)
=============================================================================
