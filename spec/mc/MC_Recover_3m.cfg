CONSTANTS MaxN = 3  MaxLen = 3  W = 4  MaxBr = 2  WithManual = TRUE  Mutant = "none"
SPECIFICATION Spec
INVARIANT Recovered
CHECK_DEADLOCK FALSE
