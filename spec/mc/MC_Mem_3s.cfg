\* every history of <= 3 stores / clones (74 120 histories); permissions are covered by MC_Mem_2
CONSTANTS LimbBits = 8  MaxOps = 3  PermN = 0
          Alphabet = {"store", "clone"}
SPECIFICATION Spec
INVARIANT DesignOK
INVARIANT Dump
PROPERTY CloneEqual
CHECK_DEADLOCK FALSE
