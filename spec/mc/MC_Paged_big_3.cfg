CONSTANTS MaxOps = 3  Endian = "big"
SPECIFICATION Spec
INVARIANT Refines
CHECK_DEADLOCK FALSE
