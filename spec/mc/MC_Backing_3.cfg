\* as the code is: every history of <= 3 region writes (44 136 histories), empty writes included
CONSTANTS MaxOps = 3  Lens = {0, 1, 2, 3, 4}  WithSet32 = FALSE  FixEmpty = FALSE  FixGet = FALSE
SPECIFICATION Spec
INVARIANT DesignOK
INVARIANT Dump
CHECK_DEADLOCK FALSE
