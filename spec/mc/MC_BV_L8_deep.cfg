CONSTANTS LimbBits = 8  MaxW = 9
SPECIFICATION Spec
INVARIANT AllAgree
CHECK_DEADLOCK FALSE
