------------------------------- MODULE MC_Loc -------------------------------
(***************************************************************************)
(* Sanity of Loc.tla on every function structure with N blocks (indices    *)
(* 0, 2, 5: not contiguous) of 0..2 instructions (instruction indices 7, 3:*)
(* neither contiguous nor ascending), every edge set, every entry:         *)
(*   - Forward and Backward are converse relations on Locations and stay   *)
(*     inside Locations,                                                   *)
(*   - Locations has no duplicates: its cardinality is the number of       *)
(*     instructions + empty blocks + edges,                                *)
(*   - the closure of Forward from the entry location equals the           *)
(*     graph-theoretic ReachableFromEntry (second formulation),            *)
(*   - owned/apply round trip.                                             *)
(***************************************************************************)
EXTENDS Loc

CONSTANT N
IdSeq == <<0, 2, 5>>
Ids == { IdSeq[j] : j \in 1..N }
InsIndex == <<7, 3>>

VARIABLES sizes, entry, edges, stage
vars == <<sizes, entry, edges, stage>>

Init == /\ sizes \in [Ids -> 0..2]
        /\ entry \in Ids \cup {None}
        /\ edges = {} /\ stage = 0
Next == /\ stage = 0 /\ stage' = 1
        /\ edges' \in SUBSET (Ids \X Ids)
        /\ UNCHANGED <<sizes, entry>>
Spec == Init /\ [][Next]_vars

F == [B |-> [b \in Ids |-> [j \in 1..sizes[b] |-> [i |-> InsIndex[j], a |-> 100 + j]]], E |-> edges, entry |-> entry]

Converse ==
  \A A \in Locations(F) : \A B2 \in Locations(F) : (B2 \in Forward(F, A)) <=> (A \in Backward(F, B2))
Closed ==
  \A A \in Locations(F) : Forward(F, A) \subseteq Locations(F) /\ Backward(F, A) \subseteq Locations(F)
NoDuplicates == Cardinality(Locations(F)) = NumLocations(F)
ClosureAgrees == ForwardClosure(F) = ReachableFromEntry(F)
RoundTrips == \A A \in Locations(F) : RoundTrip(F, A)

AllOK == stage = 1 => Converse /\ Closed /\ NoDuplicates /\ ClosureAgrees /\ RoundTrips
=============================================================================
