CONSTANTS Lat = "pow1"  Kind = "genkill"  NsFull = {3}  NsSmall = {}  Forces = {FALSE}
SPECIFICATION Spec
INVARIANTS LfpIsLeastSolution SolutionIsFixedPointOfF BelowLfp DoneIsLfp DoneIsSolution ForceOnlyMattersWhenNotMonotone WorkList StepBound JudgeAcceptsModel JudgeRejects
PROPERTY Terminates
CHECK_DEADLOCK FALSE
