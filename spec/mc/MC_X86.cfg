CONSTANTS LimbBits = 3  MinW = 4  MaxW = 6  XSel = {}
SPECIFICATION Spec
INVARIANT Inv
CHECK_DEADLOCK FALSE
