CONSTANTS LimbBits = 3  MaxW = 7
SPECIFICATION Spec
INVARIANT AllAgree
CHECK_DEADLOCK FALSE
