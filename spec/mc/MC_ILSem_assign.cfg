CONSTANT LimbBits = 8
CONSTANT OpSel = "assign"
SPECIFICATION Spec
INVARIANTS Deterministic Frame StoreExact ErrorsAreReal
CHECK_DEADLOCK FALSE
