CONSTANT LimbBits = 8
CONSTANT OpSel = "store"
SPECIFICATION Spec
INVARIANTS Deterministic Frame StoreExact ErrorsAreReal
CHECK_DEADLOCK FALSE
