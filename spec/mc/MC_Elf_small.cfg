CONSTANTS LimbBits = 2  AddrBits = 4  MaxSz = 2  Bases = {0, 14}
SPECIFICATION Spec
INVARIANT AllOK
CHECK_DEADLOCK FALSE
