------------------------------ MODULE MC_Loader ------------------------------
(***************************************************************************)
(* Every schedule of the work-list machine of Loader, on every abstract    *)
(* program over N addresses (each address lifts or fails, with any set of  *)
(* direct call targets) and every set of entries, terminates, and          *)
(* terminates in a result satisfying ClosureOK; ProgramOK holds of the     *)
(* initial (non-recursive) result.                                         *)
(***************************************************************************)
EXTENDS Loader

CONSTANT N
Addrs == 1..N

VARIABLES ap, ents, st
vars == <<ap, ents, st>>

Bodies == [ok : BOOLEAN, calls : SUBSET Addrs]

Init == /\ ap \in [Addrs -> Bodies]
        /\ ents \in SUBSET Addrs
        /\ st = WLInit(ap, ents)
Next == /\ \E f \in st.F \ st.done : st' = WLStep(ap, st, f)
        /\ UNCHANGED <<ap, ents>>
Spec == Init /\ [][Next]_vars /\ WF_vars(Next)

Calls == [f \in st.F |-> ap[f].calls]

\* the non-recursive result
InitialOK == st.done = {} => ProgramOK(ents, ents, Addrs, st.F, st.E)
\* safety all along: nothing unjustified is ever added, lifted and failed stay apart
Justified == /\ st.F \cap st.E = {}
             /\ (st.F \cup st.E) \subseteq ReachFrom(ents, st.F, Calls)
             /\ \A a \in st.F : ap[a].ok
             /\ \A a \in st.E : ~ap[a].ok
\* the final result
FinalOK == WLFinished(st) => ClosureOK(ents, ents, Addrs, st.F, st.E, Calls)
\* and exactly the graph-theoretic closure: reachable from the entries through lifted functions
RECURSIVE GraphReach(_)
GraphReach(S) == LET T == S \cup UNION { ap[a].calls : a \in { x \in S : ap[x].ok } } IN
                 IF T = S THEN S ELSE GraphReach(T)
Exact == WLFinished(st) => /\ st.F = { a \in GraphReach(ents) : ap[a].ok }
                           /\ st.E = { a \in GraphReach(ents) : ~ap[a].ok }
AllOK == InitialOK /\ Justified /\ FinalOK /\ Exact
Terminates == <>WLFinished(st)
=============================================================================
