CONSTANTS
  Ids = {1, 4, 7, 9}
  HeavyMax = 0
SPECIFICATION Spec
INVARIANTS ViewsConsistent
CHECK_DEADLOCK FALSE
