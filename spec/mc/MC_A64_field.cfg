CONSTANTS LimbBits = 8  MaxW = 0
SPECIFICATION SpecField
INVARIANT FieldOK
CHECK_DEADLOCK FALSE
