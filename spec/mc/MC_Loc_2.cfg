CONSTANT N = 2
SPECIFICATION Spec
INVARIANT AllOK
CHECK_DEADLOCK FALSE
