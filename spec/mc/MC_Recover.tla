----------------------------- MODULE MC_Recover -----------------------------
(***************************************************************************)
(* Small-scope check of the model of translate_function_extended           *)
(* (Recover!Lift) against the architecture's side (Recover!ReachInstr,     *)
(* Recover!Succs) for ALL programs in scope:                               *)
(*   - 1..MaxN instructions of 1..MaxLen bytes each, laid out contiguously *)
(*     from address 0, translation windows of W bytes (so windows end      *)
(*     inside instructions, between instructions, and blocks overlap);     *)
(*   - at most MaxBr jump / conditional instructions with every forward,   *)
(*     backward and self target (targets are instruction starts), an       *)
(*     optional indirect jump in the middle, the last instruction is an    *)
(*     indirect jump unless it is itself a jump;                           *)
(*   - every instruction start as function address;                        *)
(*   - no manual edge, or one manual edge from an indirect jump to any     *)
(*     instruction.                                                        *)
(* One TLC state per (layout, entry) in Init and per (kinds, manual) in    *)
(* Next; the invariant is evaluated on the recovered function.             *)
(*                                                                         *)
(* Mutant # "none" switches on a seeded defect of the MODEL (sensitivity   *)
(* of the properties; run by hand, see parts/C06.design.md):               *)
(*   "byblock"  instruction vertices keyed by (block, address)             *)
(***************************************************************************)
EXTENDS Recover

CONSTANTS MaxN, MaxLen, W, MaxBr, WithManual, Mutant

VARIABLES lens, entry, kinds, manual
vars == <<lens, entry, kinds, manual>>

RECURSIVE SumTo(_, _)
SumTo(s, k) == IF k = 0 THEN 0 ELSE s[k] + SumTo(s, k - 1)
StartOf(s, i) == SumTo(s, i - 1)
N(s) == Len(s)

Seqs(n, S) == [1..n -> S]
\* kind vectors: sequences of [kind, t (instruction index)]
Plain(n) == [i \in 1..n |-> [kind |-> IF i = n THEN "ind" ELSE "fall", t |-> 0]]
BranchChoices(n) == { [kind |-> k, t |-> t] : k \in {"jump", "cond"}, t \in 1..n }
WithBranches(n) ==
  LET base == Plain(n)
      one == { [base EXCEPT ![p] = c] : p \in 1..n, c \in BranchChoices(n) }
      two == IF MaxBr < 2 THEN {} ELSE
             { [base EXCEPT ![p] = c, ![q] = d] : p \in 1..n, q \in 1..n, c \in BranchChoices(n), d \in BranchChoices(n) }
  IN {base} \cup one \cup { x \in two : \E p \in 1..n, q \in 1..n : p < q /\ x[p].kind \in {"jump", "cond"} /\ x[q].kind \in {"jump", "cond"} }
\* an optional indirect jump in the middle ("call" behaves like "fall" for recovery and is not enumerated)
WithMiddle(n) ==
  LET B == WithBranches(n) IN
  B \cup { [b EXCEPT ![p] = [kind |-> k, t |-> 0]] : b \in B, p \in 1..(n - 1), k \in {"ind"} }
KindVectors(n) == { v \in WithMiddle(n) : v[n].kind \in {"ind", "jump"}
                                           /\ Cardinality({ p \in 1..n : v[p].kind \in {"jump", "cond"} }) <= MaxBr }

Init == /\ lens \in UNION { Seqs(n, 1..MaxLen) : n \in 1..MaxN }
        /\ entry \in 1..MaxN /\ entry <= Len(lens)
        /\ kinds = <<>> /\ manual = {}
Next == /\ kinds = <<>>
        /\ kinds' \in KindVectors(Len(lens))
        /\ manual' \in {{}} \cup (IF WithManual THEN { {<<h, t>>} : h \in { p \in 1..Len(lens) : kinds'[p].kind = "ind" }, t \in 1..Len(lens) } ELSE {})
        /\ UNCHANGED <<lens, entry>>
Spec == Init /\ [][Next]_vars

\* ---- the program and its recovery ----------------------------------------------------------
Prog  == [a \in { StartOf(lens, i) : i \in 1..N(lens) } |->
            LET i == CHOOSE i \in 1..N(lens) : StartOf(lens, i) = a IN
            [len |-> lens[i], kind |-> kinds[i].kind, t |-> IF kinds[i].t = 0 THEN 0 ELSE StartOf(lens, kinds[i].t)]]
Size  == SumTo(lens, N(lens))
Fun   == StartOf(lens, entry)
Man   == { <<StartOf(lens, m[1]), StartOf(lens, m[2])>> : m \in manual }
Roots == {Fun} \cup { m[1] : m \in Man } \cup { m[2] : m \in Man }
L     == Lift(Prog, Size, W, Fun, Man, Mutant # "byblock")

ExactlyOnce(f, reach) ==
  /\ AddrsOf(f) = reach
  /\ \A a \in reach : Cardinality(Occurrences(f, a)) = 1
EntryOk(f) == HeadOf(f, f.entry, Fuel(f)) = {Fun}
SuccsOk(f, reach) ==
  LET pairs == NativePairs(f) IN
  \A a \in reach : { p[2] : p \in { q \in pairs : q[1] = a } } = Succs(Prog, Man, a)
\* a two-way conditional keeps two guarded edges (merge must not swallow one); t = next leaves one edge
CondOk(f, reach) ==
  \A a \in reach : Prog[a].kind = "cond" /\ Prog[a].t # NextOf(Prog, a) =>
     \E b \in BlockIds(f) : /\ Len(f.blocks[b]) > 0 /\ f.blocks[b][Len(f.blocks[b])] = a
                            /\ Cardinality(OutEdges(f, b)) = 2
                            /\ \A e \in OutEdges(f, b) : e[3]
\* merged blocks are maximal straight-line pieces: no block is entered in its middle
Recovered ==
  kinds # <<>> =>
    LET reach == ReachInstr(Prog, Man, Roots) IN
    /\ L.ok
    /\ NoDangling(L.f)
    /\ EntryOk(L.f)
    /\ ExactlyOnce(L.f, reach)
    /\ SuccsOk(L.f, reach)
    /\ CondOk(L.f, reach)
=============================================================================
