------------------------------- MODULE MC_Elf -------------------------------
(***************************************************************************)
(* Small-scope exhaustive check of the design-level module Elf:            *)
(*  - loading commutes with rebasing: Rebased(Load(d, 0), B) = Load(d, B)  *)
(*    for the memory image, the symbols, the function entries and the      *)
(*    program entry, for every base, including bases that wrap around;     *)
(*  - overlapping segments follow last-writer-wins: the "set of surviving  *)
(*    cells" definition of Image equals a byte map updated segment by      *)
(*    segment in program-header order, and both equal a third, integer     *)
(*    formulation (the byte at address x is decided by the LAST PT_LOAD    *)
(*    whose range [vaddr+B, vaddr+B+memsz) mod 2^AddrBits contains x);     *)
(*  - the integer-coordinate formulation ImageRel (what Trace_C19 evaluates *)
(*    for speed) denotes the same image whenever its side condition holds; *)
(*  - the image is a function of the address, zero fill starts at filesz,  *)
(*    permissions are those of the deciding segment, nothing else mapped.  *)
(* Scope: AddrBits-bit addresses (4: 16 addresses, 2-bit limbs, so every   *)
(* address has two limbs and carries/wrap-around are exercised), all       *)
(* descriptions with <= 2 program headers (PT_LOAD, or one non-loadable    *)
(* header that must be ignored), memsz <= MaxSz, filesz <= memsz, all      *)
(* vaddr, all bases; file bytes are distinct non-zero values per position  *)
(* (their values do not influence the layout); plus a symbol table part.   *)
(***************************************************************************)
EXTENDS Elf

CONSTANTS MaxSz, Bases

N == 2^AddrBits

RECURSIVE ToIntF(_,_,_)
ToIntF(a, i, acc) == IF i = 0 THEN acc ELSE ToIntF(a, i - 1, acc * B + a[i])
ToInt(a) == ToIntF(a, Len(a), 0)

FlagChoices(k) == IF k = 1 THEN {5, 6} ELSE {4, 3}     \* r-x, rw- / r--, -wx

\* segment number k (1 or 2) with the given layout; file byte i of segment k is 16*k + i
MkSeg(k, ty, va, fs, ms, fl) ==
  [type |-> ty, off |-> 0, vaddr |-> A(va), filesz |-> fs, memsz |-> ms, flags |-> fl,
   bytes |-> [i \in 1..fs |-> 16 * k + i]]

\* Image is translation invariant (that is the law being checked), so the first header only
\* needs two positions (one of them wrapping around the top of the address space); the second
\* takes every position relative to it.  A non-loadable header (PT_NOTE) must be ignored.
VaChoices(k) == IF k = 1 THEN {1, N - 2} ELSE 0..(N - 1)
SegChoices(k) ==
  { MkSeg(k, 1, va, fs, ms, fl) : va \in VaChoices(k), ms \in 0..MaxSz, fs \in 0..MaxSz, fl \in FlagChoices(k) }
  \cup { MkSeg(k, 4, va, 0, ms, 4) : va \in {1}, ms \in {0, MaxSz} }
GoodSeg(s) == s.filesz <= s.memsz

\* a few symbol tables: defined / undefined / zero-valued / weak / object / function
SymChoices ==
  { <<>>,
    << [name |-> "f", value |-> A(3), type |-> 2, bind |-> 1, shndx |-> 1],
       [name |-> "o", value |-> A(N - 1), type |-> 1, bind |-> 1, shndx |-> 2] >>,
    << [name |-> "u", value |-> A(0), type |-> 2, bind |-> 1, shndx |-> 0],
       [name |-> "w", value |-> A(5), type |-> 2, bind |-> 2, shndx |-> 1],
       [name |-> "z", value |-> A(0), type |-> 2, bind |-> 1, shndx |-> 1],
       [name |-> "p", value |-> A(7), type |-> 2, bind |-> 1, shndx |-> 0],
       [name |-> "",  value |-> A(2), type |-> 3, bind |-> 0, shndx |-> 1],
       [name |-> "a", value |-> A(9), type |-> 1, bind |-> 1, shndx |-> 65521] >> }

VARIABLES s1, s2, base, nseg, st
vars == <<s1, s2, base, nseg, st>>

Desc == [cls |-> 32, data |-> "LE", machine |-> 3, entry |-> A(2),
         segs |-> IF nseg = 0 THEN <<>> ELSE IF nseg \in {1, 3} THEN <<s1>> ELSE <<s1, s2>>,
         symtab |-> st, dynsym |-> IF st = <<>> THEN <<>> ELSE <<st[1]>>,
         pltrel |-> IF st = <<>> THEN <<>> ELSE <<[off |-> A(6), sym |-> 0]>>]

\* two levels so that the workers share the enumeration
Init == /\ s1 \in { s \in SegChoices(1) : GoodSeg(s) }
        /\ s2 = s1 /\ nseg = 1 /\ base = A(0) /\ st = <<>>
Next == /\ nseg = 1
        /\ \/ /\ nseg' = 2 /\ s2' \in { s \in SegChoices(2) : GoodSeg(s) } /\ st' = <<>>
           \/ /\ nseg' = 3 /\ s2' = s2 /\ st' \in SymChoices \ {<<>>} /\ s1.flags = 5
           \/ /\ nseg' = 0 /\ s2' = s2 /\ st' = <<>> /\ s1.memsz = 0 /\ s1.flags = 5 /\ s1.type = 1
        /\ base' \in { A(b) : b \in Bases }
        /\ UNCHANGED s1
Spec == Init /\ [][Next]_vars

Users == <<A(1), A(3)>>

(* --- integer formulation of the image --- *)
SegsI == [k \in 1..Len(Desc.segs) |-> Desc.segs[k]]
InRangeI(k, x, b) == LET s == SegsI[k] IN ((x - (ToInt(s.vaddr) + b)) % N) < s.memsz
DecidingI(x, b) ==
  LET ks == { k \in 1..Len(SegsI) : SegsI[k].type = 1 /\ InRangeI(k, x, b) } IN
  IF ks = {} THEN 0 ELSE CHOOSE k \in ks : \A j \in ks : j <= k
ImageI(b) ==
  { <<x, LET k == DecidingI(x, b)  s == SegsI[k]  i == (x - (ToInt(s.vaddr) + b)) % N
         IN IF i < s.filesz THEN s.bytes[i + 1] ELSE 0,
      Perm(SegsI[DecidingI(x, b)].flags)>> : x \in { y \in 0..(N - 1) : DecidingI(y, b) # 0 } }
CellsToInt(cells) == { <<ToInt(c[1]), c[2], c[3]>> : c \in cells }

WF == WellFormed(Desc)

Law == RebasingLaw(Desc, Users, base)

LastWriterWins ==
  /\ Image(Desc, base) = MapCells(ImageMap(Desc, base))
  /\ CellsToInt(Image(Desc, base)) = ImageI(ToInt(base))
  /\ Functional(Image(Desc, base))
  /\ \A c \in Image(Desc, base) : IsAddr(c[1])

\* the integer-coordinate image used by the trace specification denotes the same image
RelAgrees ==
  \A O \in {MinStart(Desc, base), A(0), SegStart(s1, base)} :
     RelOK(Desc, base, O) => LiftCells(ImageRel(Desc, base, O), O) = Image(Desc, base)
QuickAgrees == ImageQ(Desc, base) = Image(Desc, base)
RelUsable == nseg \in {1, 3} /\ s1.type = 1 => RelOK(Desc, base, MinStart(Desc, base))

\* spot properties of the definition that a reader expects
Spot ==
  /\ Perm(5) = <<TRUE, FALSE, TRUE>> /\ Perm(6) = <<TRUE, TRUE, FALSE>> /\ Perm(3) = <<FALSE, TRUE, TRUE>>
  /\ nseg \in {1, 3} /\ s1.type = 1 =>
       /\ Cardinality(Image(Desc, base)) = s1.memsz
       /\ \A i \in 0..(s1.memsz - 1) :
            CellAt(Image(Desc, base), AddOff(AddA(s1.vaddr, base), i)) =
              <<IF i < s1.filesz THEN 16 + i + 1 ELSE 0, Perm(s1.flags)>>
       /\ CellAt(Image(Desc, base), AddOff(AddA(s1.vaddr, base), s1.memsz))[1] = -1
  /\ nseg \in {1, 3} /\ s1.type # 1 => Image(Desc, base) = {}
  /\ nseg = 0 => Image(Desc, base) = {}
  /\ st # <<>> /\ Len(st) > 2 =>
       \* only the weak defined function (and the program entry, users) are certain entries;
       \* the undefined and the zero-valued ones are not; the ABS object is not a must-report
       /\ EntryLower(Desc, base, <<>>) = {AddA(A(5), base), AddA(A(2), base)}
       /\ AddA(A(7), base) \notin EntryUpper(Desc, base, <<>>) \ {AddA(A(2), base), AddA(A(5), base), AddA(A(0), base)}
       /\ SymLower(Desc, base) = {Sym("w", AddA(A(5), base))}
       /\ Sym("u", AddA(A(6), base)) \in SymUpper(Desc, base)
       /\ Sym("u", AddA(A(4), base)) \notin SymUpper(Desc, base)

\* exported symbols: every GLOBAL / WEAK definition of .dynsym, untyped ones included; locals,
\* undefined and zero-valued entries are not required
ExportSpot ==
  LET d == [Desc EXCEPT !.dynsym =
              << [name |-> "n", value |-> A(4), type |-> 0, bind |-> 1, shndx |-> 1],
                 [name |-> "o", value |-> A(5), type |-> 1, bind |-> 2, shndx |-> 1],
                 [name |-> "f", value |-> A(6), type |-> 2, bind |-> 1, shndx |-> 1],
                 [name |-> "l", value |-> A(7), type |-> 2, bind |-> 0, shndx |-> 1],
                 [name |-> "u", value |-> A(0), type |-> 2, bind |-> 1, shndx |-> 0] >>]
  IN /\ ExportLower(d, base) = { Sym("n", AddA(A(4), base)), Sym("o", AddA(A(5), base)), Sym("f", AddA(A(6), base)) }
     /\ ExportUpper(d, base) = ExportLower(d, base)
     /\ ExportsOK(d, base, ExportLower(d, base))
     /\ ~ExportsOK(d, base, ExportLower(d, base) \ { Sym("n", AddA(A(4), base)) })

AllOK == ExportSpot /\ WF /\ Law /\ LastWriterWins /\ RelAgrees /\ QuickAgrees /\ RelUsable /\ Spot
=============================================================================
