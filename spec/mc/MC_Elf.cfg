CONSTANTS LimbBits = 2  AddrBits = 4  MaxSz = 4  Bases = {0, 1, 5, 15}
SPECIFICATION Spec
INVARIANT AllOK
CHECK_DEADLOCK FALSE
