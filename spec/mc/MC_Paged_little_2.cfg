CONSTANTS MaxOps = 2  Endian = "little"
SPECIFICATION Spec
INVARIANT Refines
CHECK_DEADLOCK FALSE
