------------------------------ MODULE MC_Paged ------------------------------
(***************************************************************************)
(* PagedImpl (cells, three-step store, fast path / fallback load) refines  *)
(* the byte array of Mem.tla: for every history of <= MaxOps stores of     *)
(* 1..4 bytes at offsets 0..5, with and without a backing under part of    *)
(* the window, every load of 1..4 and 8 bytes at offsets 0..8 returns what *)
(* Mem!LoadRes returns, and every back-reference points at a value that    *)
(* covers it.  Stored bytes are unique tags (16*k + j).                    *)
(***************************************************************************)
EXTENDS PagedImpl

CONSTANTS MaxOps, Endian

VARIABLES cells,     \* PagedImpl
          bytes,     \* Mem: address -> byte
          n          \* stores so far
vars == <<cells, bytes, n>>

K(off) == 1021 + off
Tag(k, len) == [j \in 1..len |-> 16 * k + j - 1]
\* backing under offsets 2..9 (0, 1 and >= 10 are unmapped)
Back == FromWrites(<<[a |-> K(2), d |-> [i \in 1..8 |-> 200 + i], p |-> 5]>>)
Backs == {EmptyCells, Back}

Init == cells = NoCellsI /\ bytes = EmptyCells /\ n = 0
Next ==
  /\ n < MaxOps
  /\ \E off \in 0..5, len \in 1..4 :
       /\ cells' = ImplStore(cells, EmptyCells, Endian, K(off), Tag(n + 1, len))
       /\ bytes' = [x \in DOMAIN bytes \cup (K(off)..(K(off) + len - 1)) |->
                      IF x \in K(off)..(K(off) + len - 1)
                      THEN Layout(Endian, Tag(n + 1, len))[x - K(off) + 1] ELSE bytes[x]]
       /\ n' = n + 1
Spec == Init /\ [][Next]_vars

\* Mem!LoadRes written out for one memory
View(back, x) == IF x \in DOMAIN bytes THEN bytes[x] ELSE Get8(back, x)
SpecLoad(back, a, len) ==
  LET bs == [i \in 1..len |-> View(back, a + i - 1)] IN
  IF \E i \in 1..len : bs[i] = Absent THEN NoBytes ELSE Assemble(Endian, bs)

Refines ==
  /\ CellsWF(cells)
  /\ DOMAIN cells = DOMAIN bytes
  /\ \A back \in Backs : \A off \in 0..8 : \A len \in {1, 2, 3, 4, 8} :
        ImplLoad(cells, back, Endian, K(off), len) = SpecLoad(back, K(off), len)
=============================================================================
