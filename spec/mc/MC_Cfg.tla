------------------------------- MODULE MC_Cfg -------------------------------
(***************************************************************************)
(* Small-scope check of the C15 model (Cfg.tla, CfgImpl.tla), independent  *)
(* of /repo.  One TLC state per graph: N blocks 0..N-1, every block with   *)
(* 0..MaxIns instructions (pairwise distinct payload tags), every edge     *)
(* (h, t) absent / unconditional / conditional (pairwise distinct          *)
(* condition tags), entry and exit anything allowed by the configuration.  *)
(* For every such graph the invariant checks                               *)
(*   - Lang against a second, instruction-level formulation (LangSmall),   *)
(*   - MergePair on every mergeable pair, and MergeAll: MergeOK (and       *)
(*     ExitLang unchanged unless the pair is merged into the exit block),  *)
(*   - Append_ with each graph of a fixed family: AppendOK;  Insert: WF,   *)
(*     language empty (entry invalidated), old part and copy both present, *)
(*   - Blockify of <<G, H>> against BlockifyLangs,                         *)
(*   - the implementation-shaped merge: CfgImpl!ImplMergeFacts.            *)
(***************************************************************************)
EXTENDS CfgImpl

CONSTANTS N,            \* number of blocks
          MaxIns,       \* instructions per block 0..MaxIns
          K,            \* language bound
          EntryNone,    \* also enumerate entry = None / entries other than block 0
          WithAppend,   \* run the append/insert/blockify family
          MaxCondEdges  \* graphs with a conditional edge have at most this many edges (all graphs
                        \* without conditional edges are enumerated)

Ids == 0..(N - 1)
InsTag  == <<<<"p00", "p01">>, <<"p10", "p11">>, <<"p20", "p21">>>>
CondTag == <<<<"?00", "?01", "?02">>, <<"?10", "?11", "?12">>, <<"?20", "?21", "?22">>>>
\* instruction indices deliberately not 0..n-1 and not ascending
InsIndex == <<7, 3>>

VARIABLES sizes, entry, exit, edges, stage
vars == <<sizes, entry, exit, edges, stage>>

Init == /\ sizes \in [Ids -> 0..MaxIns]
        /\ entry \in (IF EntryNone THEN Ids \cup {None} ELSE {0})
        /\ exit \in Ids \cup {None}
        /\ edges = <<>> /\ stage = 0
Next == /\ stage = 0 /\ stage' = 1
        /\ edges' \in { ed \in [Ids \X Ids -> {"-", "u", "c"}] :
                         \/ \A q \in Ids \X Ids : ed[q] # "c"
                         \/ Cardinality({ q \in Ids \X Ids : ed[q] # "-" }) <= MaxCondEdges }
        /\ UNCHANGED <<sizes, entry, exit>>
Spec == Init /\ [][Next]_vars

MkGraph(sz, en, ex, ed) ==
  [B |-> [b \in Ids |-> [j \in 1..sz[b] |-> [i |-> InsIndex[j], p |-> InsTag[b + 1][j], a |-> None]]],
   E |-> { [h |-> p[1], t |-> p[2], c |-> IF ed[p] = "u" THEN Uncond ELSE CondTag[p[1] + 1][p[2] + 1]]
           : p \in { q \in Ids \X Ids : ed[q] # "-" } },
   entry |-> en, exit |-> ex]

G == MkGraph(sizes, entry, exit, edges)

(***************************************************************************)
(* Second formulation of the language: instruction-level small steps over  *)
(* configurations <<block, number of instructions executed, emitted>>.     *)
(***************************************************************************)
SmallStep(g, k, x) ==
  LET b == x[1] pos == x[2] s == x[3] IN
  IF pos < Len(g.B[b])
  THEN IF Len(s) < k THEN {<<b, pos + 1, Append(s, g.B[b][pos + 1].p)>>} ELSE {}
  ELSE { y \in { <<e.t, 0, s \o EdgeTag(e)>> : e \in OutEdges(g, b) } : Len(y[3]) <= k }
RECURSIVE SmallReach(_,_,_,_)
SmallReach(g, k, seen, frontier) ==
  IF frontier = {} THEN seen
  ELSE LET next == TLCEval((UNION { SmallStep(g, k, x) : x \in frontier }) \ seen)
       IN SmallReach(g, k, TLCEval(seen \cup next), next)
SmallConfigs(g, k) == IF g.entry = None THEN {} ELSE SmallReach(g, k, {<<g.entry, 0, <<>>>>}, {<<g.entry, 0, <<>>>>})
LangSmall(g, k)     == { x[3] : x \in SmallConfigs(g, k) }
ExitLangSmall(g, k) == { x[3] : x \in { y \in SmallConfigs(g, k) : y[1] = g.exit /\ y[2] = Len(g.B[y[1]]) } }

LangAgrees(g) == Lang(g, K) = LangSmall(g, K) /\ ExitLang(g, K) = ExitLangSmall(g, K)

(***************************************************************************)
(* merge                                                                   *)
(***************************************************************************)
MergePairOK(g) ==
  \A p \in MergeablePairs(g) :
    LET g2 == MergePair(g, p[1], p[2]) IN
    /\ MergeOK(g, g2, K)
    /\ g.exit # p[1] => ExitLang(g2, K) = ExitLang(g, K)     \* (merging *into* the exit block extends its runs)
    /\ Cardinality(BlockIds(g2)) = Cardinality(BlockIds(g)) - 1
MergeAllOK(g) ==
  LET g2 == MergeAll(g) IN
  /\ MergeOK(g, g2, K) /\ MergeablePairs(g2) = {}

(***************************************************************************)
(* append / insert / blockify with a fixed family of second graphs         *)
(***************************************************************************)
I(i, p) == [i |-> i, p |-> p, a |-> None]
Ed(h, t, c) == [h |-> h, t |-> t, c |-> c]
Family == <<
  \* one empty block
  [B |-> (4 :> <<>>), E |-> {}, entry |-> 4, exit |-> 4],
  \* one block, one instruction, conditional self-loop
  [B |-> (0 :> <<I(5, "h0")>>), E |-> {Ed(0, 0, "?h")}, entry |-> 0, exit |-> 0],
  \* chain of two, entry # exit
  [B |-> (1 :> <<I(0, "h1")>> @@ 3 :> <<I(0, "h2"), I(1, "h3")>>), E |-> {Ed(1, 3, Uncond)}, entry |-> 1, exit |-> 3],
  \* cycle whose exit block has an out-edge back to the entry, and an unreachable block
  [B |-> (0 :> <<I(2, "h4")>> @@ 1 :> <<>> @@ 2 :> <<I(0, "h5")>>),
   E |-> {Ed(0, 1, "?k"), Ed(1, 0, Uncond), Ed(2, 0, Uncond)}, entry |-> 0, exit |-> 1],
  \* exit is the entry of a two-block graph (the run ends before the second block)
  [B |-> (0 :> <<I(0, "h6")>> @@ 1 :> <<I(0, "h7")>>), E |-> {Ed(0, 1, Uncond)}, entry |-> 0, exit |-> 0],
  \* entry/exit missing
  [B |-> (0 :> <<I(0, "h8")>>), E |-> {}, entry |-> 0, exit |-> None] >>

AppendFamilyOK(g) ==
  \A j \in 1..Len(Family) :
    LET h == Family[j] m == FreshMap(g, h) IN
    /\ RenamePre(g, h, m)
    /\ AppendPre(g, h) => AppendOK(g, h, Append_(g, h, m), K)
    /\ InsertPre(h) =>
         LET g2 == Insert(g, h, m) IN
         /\ WF(g2) /\ Lang(g2, K) = {}
         /\ Langs(SetEntry(g2, InsertResult(h, m)[1]), K)[1] = Lang(h, K)
         /\ g.entry # None => Lang(SetEntry(g2, g.entry), K) = Lang(g, K)
    /\ (BlockifyPre(<<g, h>>)) =>
         LET r == Blockify(<<g, h>>) IN
         /\ WF(r) /\ Lang(r, K) = BlockifyLangs(<<g, h>>, K)[1]
         /\ Lang(r, K) = AppendLang(Langs(g, K), Langs(h, K), K)[1]

AllOK ==
  stage = 1 =>
    /\ WF(G)
    /\ LangAgrees(G)
    /\ MergePairOK(G)
    /\ MergeAllOK(G)
    /\ ImplMergeFacts(G, K)
    /\ WithAppend => AppendFamilyOK(G)
=============================================================================
