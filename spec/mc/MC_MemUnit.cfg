SPECIFICATION Spec
INVARIANT Good
POSTCONDITION RanAll
CHECK_DEADLOCK FALSE
