----------------------------- MODULE MC_MemUnit -----------------------------
(***************************************************************************)
(* The oracle of C08 against values other people computed by hand: the     *)
(* five unit tests of lib/memory/paged.rs (big_endian, little_endian,      *)
(* backed, backing_fallback_uses_correct_offset, set_permissions) are      *)
(* replayed as one scripted behaviour of Mem.tla and every expectation     *)
(* hard-coded in those tests must be what Mem answers.  One step per       *)
(* script line; POSTCONDITION: the whole script ran.                       *)
(***************************************************************************)
EXTENDS Mem

VARIABLES pc, good
vars == <<mvars, pc, good>>

\* 0xAABBCCDD written as W4(170, 187, 204, 221): little-endian limbs
W4(a, b, c, d) == <<d, c, b, a>>
W2(a, b) == <<b, a>>
V(bits, limbs) == MVal(bits, limbs)
AABBCCDD == W4(170, 187, 204, 221)

Backings == <<
  [endian |-> "big", cells |-> FromWrites(<<[a |-> 256, d |-> <<0, 17, 34, 51, 68, 85, 102, 119>>, p |-> 1]>>)],
  [endian |-> "big", cells |-> FromWrites(<<[a |-> 4096, d |-> <<170, 187>>, p |-> 7]>>)] >>

St(h, k, v)        == [op |-> "store", h |-> h, k |-> k, v |-> v]
Ld(h, k, bits, x)  == [op |-> "load", h |-> h, k |-> k, bits |-> bits, exp |-> x]
B(x) == V(8, <<x>>)

Script == <<
  \* big_endian
  [op |-> "new", h |-> 0, e |-> "big", b |-> 0],
  St(0, 256, AABBCCDD), Ld(0, 256, 32, V(32, AABBCCDD)),
  Ld(0, 256, 8, B(170)), Ld(0, 257, 8, B(187)), Ld(0, 258, 8, B(204)), Ld(0, 259, 8, B(221)),
  St(0, 258, <<255>>),
  Ld(0, 256, 8, B(170)), Ld(0, 257, 8, B(187)), Ld(0, 258, 8, B(255)), Ld(0, 259, 8, B(221)),
  Ld(0, 256, 32, V(32, W4(170, 187, 255, 221))),
  [op |-> "new", h |-> 1, e |-> "big", b |-> 0],
  St(1, 256, AABBCCDD), St(1, 260, W4(17, 34, 51, 68)), Ld(1, 257, 32, V(32, W4(187, 204, 221, 17))),
  \* little_endian
  [op |-> "new", h |-> 2, e |-> "little", b |-> 0],
  St(2, 256, AABBCCDD), Ld(2, 256, 32, V(32, AABBCCDD)),
  Ld(2, 256, 8, B(221)), Ld(2, 257, 8, B(204)), Ld(2, 258, 8, B(187)), Ld(2, 259, 8, B(170)),
  St(2, 258, <<255>>),
  Ld(2, 256, 8, B(221)), Ld(2, 257, 8, B(204)), Ld(2, 258, 8, B(255)), Ld(2, 259, 8, B(170)),
  Ld(2, 256, 32, V(32, W4(170, 255, 204, 221))),
  [op |-> "new", h |-> 3, e |-> "little", b |-> 0],
  St(3, 256, AABBCCDD), St(3, 260, W4(17, 34, 51, 68)), Ld(3, 257, 32, V(32, W4(68, 170, 187, 204))),
  \* backed
  [op |-> "new", h |-> 4, e |-> "big", b |-> 1],
  St(4, 256, AABBCCDD), St(4, 263, AABBCCDD),
  Ld(4, 256, 32, V(32, AABBCCDD)), Ld(4, 262, 32, V(32, W4(102, 170, 187, 204))),
  \* backing_fallback_uses_correct_offset
  [op |-> "new", h |-> 5, e |-> "big", b |-> 2],
  St(5, 4096, W2(17, 34)), Ld(5, 4096, 32, NoVal),
  \* set_permissions
  [op |-> "new", h |-> 6, e |-> "big", b |-> 1],
  [op |-> "perm", h |-> 6, k |-> 256, exp |-> 1],
  [op |-> "setperm", h |-> 6, k |-> 0, len |-> 1024, p |-> 3],
  [op |-> "perm", h |-> 6, k |-> 0, exp |-> 3],
  [op |-> "perm", h |-> 6, k |-> 256, exp |-> 3] >>

Init == MemInit(Backings) /\ pc = 1 /\ good = TRUE
Next ==
  /\ pc <= Len(Script) /\ pc' = pc + 1
  /\ LET s == Script[pc] IN
     CASE s.op = "new"     -> New(s.h, s.e, s.b) /\ UNCHANGED good
       [] s.op = "store"   -> Store(s.h, s.k, s.v) /\ UNCHANGED good
       [] s.op = "setperm" -> SetPerm(s.h, s.k, s.len, s.p) /\ UNCHANGED good
       [] s.op = "load"    -> good' = (good /\ LoadRes(s.h, s.k, s.bits) = s.exp) /\ UNCHANGED mvars
       [] s.op = "perm"    -> good' = (good /\ PermAllowed(s.h, s.k) = {s.exp}) /\ UNCHANGED mvars
Spec == Init /\ [][Next]_vars

Good == good
RanAll == TLCGet("stats").diameter = Len(Script) + 1
=============================================================================
