CONSTANTS LimbBits = 8  MaxW = 6
SPECIFICATION Spec
INVARIANT AllAgree
CHECK_DEADLOCK FALSE
