CONSTANTS N = 2  MaxIns = 2  K = 6  EntryNone = TRUE  WithAppend = TRUE  MaxCondEdges = 4
SPECIFICATION Spec
INVARIANT AllOK
CHECK_DEADLOCK FALSE
