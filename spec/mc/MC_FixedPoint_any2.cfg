CONSTANTS Lat = "chain3"  Kind = "all"  NsFull = {1, 2}  NsSmall = {}  Forces = {TRUE, FALSE}
SPECIFICATION Spec
INVARIANTS LfpIsLeastSolution SolutionIsFixedPointOfF BelowLfp DoneIsLfp DoneIsSolution ForceOnlyMattersWhenNotMonotone WorkList StepBound JudgeAcceptsModel JudgeRejects
PROPERTY Terminates
CHECK_DEADLOCK FALSE
