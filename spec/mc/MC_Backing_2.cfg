\* as the code is: every history of <= 2 writes (incl. empty) and set32 within a region
CONSTANTS MaxOps = 2  Lens = {0, 1, 2, 3, 4}  WithSet32 = TRUE  FixEmpty = FALSE  FixGet = FALSE
SPECIFICATION Spec
INVARIANT DesignOK
INVARIANT Dump
CHECK_DEADLOCK FALSE
