CONSTANT LimbBits = 8
CONSTANT OpSel = "all"
SPECIFICATION Spec
INVARIANTS Deterministic Frame StoreExact ErrorsAreReal
CHECK_DEADLOCK FALSE
