------------------------------- MODULE MC_A64 -------------------------------
(***************************************************************************)
(* Small-scope lemmas about the shared functions of A64.tla, each checked  *)
(* against a SECOND formulation (integer arithmetic at small widths, or a  *)
(* bit-by-bit characterisation at the real widths), so that an error in    *)
(* the oracle is caught here and not reported against the code.            *)
(*                                                                         *)
(*  SpecFlags  (LimbBits 3, widths 1..MaxW, all x, y, carry-in):           *)
(*     AddWithCarry = the integer definitions of the manual                *)
(*       result = (x+y+c) mod 2^w, N = msb, Z, C = unsigned overflow,      *)
(*       V = (SInt(x)+SInt(y)+c # SInt(result));                           *)
(*     SUBS = AddWithCarry(x, NOT y, 1): result x-y, C = NOT borrow,       *)
(*       V = signed overflow of x-y; and the compare lemmas that tie       *)
(*       NZCV to ConditionHolds: after SUBS x, y                            *)
(*       EQ <=> x=y, CS <=> x>=y, HI <=> x>y, GE/GT/LT/LE signed, MI, ...  *)
(*     ADDS: CS <=> x+y >= 2^w, VS <=> signed overflow                      *)
(*  SpecExt    (LimbBits 8, N in {32,64}): ExtendReg and ShiftReg bit by   *)
(*     bit for all options x shifts 0..4 / all types x amounts, on walking  *)
(*     ones, walking zeros and fixed patterns                              *)
(*  SpecMask   (LimbBits 8): DecodeBitMasks for all (N, imms, immr):       *)
(*     bit i of wmask = (((i mod esize) + R) mod esize <= S), UNDEFINED    *)
(*     exactly for the reserved values                                     *)
(*  SpecField  (LimbBits 8): fields of assembled words are read back by F, *)
(*     SImm is sign extension times 4, data window read/write round trip   *)
(*     in both byte orders                                                 *)
(***************************************************************************)
EXTENDS A64, BVMath, FiniteSets

CONSTANT MaxW

RECURSIVE ToIntF(_,_,_)
ToIntF(a, i, acc) == IF i = 0 THEN acc ELSE ToIntF(a, i - 1, acc * B + a[i])
ToInt(a) == ToIntF(a, Len(a), 0)

VARIABLES w, x, y
vars == <<w, x, y>>

(* ------------------------------ flags ---------------------------------- *)
InitFlags == w \in 1..MaxW /\ x \in 0..(2^w - 1) /\ y = -1
NextFlags == y = -1 /\ y' \in 0..(2^w - 1) /\ UNCHANGED <<w, x>>
SpecFlags == InitFlags /\ [][NextFlags]_vars

a == FromNat(w, x)
b == FromNat(w, y)
B01(p) == IF p THEN 1 ELSE 0

AwcLemma(c) ==
  LET r == AddWithCarry(w, a, b, c)
      us == x + y + c
      ss == Signed(w, x) + Signed(w, y) + c
      res == ToInt(r.res)
  IN /\ IsBV(w, r.res)
     /\ res = us % 2^w
     /\ r.f[1] = B01(res >= 2^(w - 1))
     /\ r.f[2] = B01(res = 0)
     /\ r.f[3] = B01(res # us)
     /\ r.f[4] = B01(Signed(w, res) # ss)

SubsLemma ==
  LET r == AddWithCarry(w, a, BvNot(w, b), 1)
      sx == Signed(w, x)  sy == Signed(w, y)
      f == r.f
  IN /\ r.res = Sub(w, a, b)
     /\ ToInt(r.res) = (x - y) % 2^w
     /\ f[3] = B01(x >= y)                                              \* C = NOT borrow
     /\ f[4] = B01(sx - sy < -(2^(w - 1)) \/ sx - sy > 2^(w - 1) - 1)     \* signed overflow
     /\ CondHolds(0, f) = (x = y)          /\ CondHolds(1, f) = (x # y)         \* EQ NE
     /\ CondHolds(2, f) = (x >= y)         /\ CondHolds(3, f) = (x < y)         \* CS/HS CC/LO
     /\ CondHolds(8, f) = (x > y)          /\ CondHolds(9, f) = (x <= y)        \* HI LS
     /\ CondHolds(10, f) = (sx >= sy)      /\ CondHolds(11, f) = (sx < sy)      \* GE LT
     /\ CondHolds(12, f) = (sx > sy)       /\ CondHolds(13, f) = (sx <= sy)     \* GT LE
     /\ CondHolds(4, f) = (f[1] = 1)       /\ CondHolds(5, f) = (f[1] = 0)      \* MI PL
     /\ CondHolds(6, f) = (f[4] = 1)       /\ CondHolds(7, f) = (f[4] = 0)      \* VS VC
     /\ CondHolds(14, f) /\ CondHolds(15, f)                                      \* AL NV

AddsLemma ==
  LET f == AddWithCarry(w, a, b, 0).f
      ss == Signed(w, x) + Signed(w, y)
  IN /\ CondHolds(2, f) = (x + y >= 2^w)
     /\ CondHolds(6, f) = (ss < -(2^(w - 1)) \/ ss > 2^(w - 1) - 1)
     /\ CondHolds(0, f) = ((x + y) % 2^w = 0)

FlagsOK == y >= 0 => AwcLemma(0) /\ AwcLemma(1) /\ SubsLemma /\ AddsLemma

(* ------------------------------ extend / shift ------------------------- *)
\* x: index of a 64-bit pattern, y: (N, option, shift) or (N, type, amount) case number
Pat(k) ==
  IF k < 64 THEN Shl(64, One(64), k)                        \* walking one
  ELSE IF k < 128 THEN BvNot(64, Shl(64, One(64), k - 64))  \* walking zero
  ELSE <<  <<0,0,0,0,0,0,0,0>>, <<255,255,255,255,255,255,255,255>>, <<170,170,170,170,170,170,170,170>>,
           <<85,85,85,85,85,85,85,85>>, <<128,0,0,128,0,128,128,0>>, <<127,255,255,127,255,127,127,255>>,
           <<220,254,0,0,0,0,255,255>>, <<136,136,34,34,68,68,17,17>> >>[k - 127]
NPat == 136
InitExt == w = 0 /\ x \in 0..(NPat - 1) /\ y = -1
NextExt == y = -1 /\ y' \in 0..(2 * 8 * 5 + 2 * 4 * 64 - 1) /\ UNCHANGED <<w, x>>
SpecExt == InitExt /\ [][NextExt]_vars

BitOr0(v, n, i) == IF i < 0 \/ i >= n THEN 0 ELSE Bit(v, i)
ExtLemma(N, option, shift) ==
  LET val == Trun(N, Pat(x))
      r == ExtendVal(N, val, option, shift)
      len == Min(<<8, 16, 32, 64>>[(option % 4) + 1], N - shift)
  IN /\ IsBV(N, r)
     /\ \A i \in 0..(N - 1) :
          Bit(r, i) = (IF i < shift THEN 0
                       ELSE IF i - shift < len THEN Bit(val, i - shift)
                       ELSE IF option >= 4 THEN Bit(val, len - 1) ELSE 0)
ShiftLemma(N, type, amt) ==
  LET val == Trun(N, Pat(x))
      r == ShiftVal(N, val, type, amt)
  IN /\ IsBV(N, r)
     /\ \A i \in 0..(N - 1) :
          Bit(r, i) = (CASE type = 0 -> BitOr0(val, N, i - amt)
                         [] type = 1 -> BitOr0(val, N, i + amt)
                         [] type = 2 -> (IF i + amt < N THEN Bit(val, i + amt) ELSE Bit(val, N - 1))
                         [] type = 3 -> Bit(val, (i + amt) % N))
ExtOK ==
  y >= 0 =>
    IF y < 80 THEN ExtLemma(IF y < 40 THEN 32 ELSE 64, (y % 40) \div 5, y % 5)
    ELSE LET z == y - 80  N == IF z < 256 THEN 32 ELSE 64  t == (z % 256) \div 64  amt == z % 64
         IN (N = 32 /\ amt >= 32) \/ ShiftLemma(N, t, amt)

(* ------------------------------ bit masks ------------------------------ *)
InitMask == w \in {32, 64} /\ x \in 0..127 /\ y = -1
NextMask == y = -1 /\ y' \in 0..63 /\ UNCHANGED <<w, x>>
SpecMask == InitMask /\ [][NextMask]_vars

MaskOK ==
  y >= 0 =>
    LET N == x \div 64  imms == x % 64  immr == y
        m == BitMask(w, N, imms, immr)
        \* len by direct case analysis of N:NOT(imms)
        len == IF N = 1 THEN 6 ELSE IF imms < 32 THEN 5 ELSE IF imms < 48 THEN 4 ELSE IF imms < 56 THEN 3
               ELSE IF imms < 60 THEN 2 ELSE IF imms < 62 THEN 1 ELSE 0
        es == 2^len
        S == imms % es
        R == immr % es
    IN IF len < 1 \/ S = es - 1 \/ es > w THEN m = <<>>
       ELSE /\ IsBV(w, m)
            /\ \A i \in 0..(w - 1) : Bit(m, i) = B01((((i % es) + R) % es) <= S)

(* ------------------------------ fields, immediates, memory ------------- *)
\* x: lo position, y: field width - 1; the word has the field all ones / a pattern, the rest the complement
InitField == w \in 0..3 /\ x \in 0..31 /\ y = -1
NextField == y = -1 /\ y' \in 0..15 /\ UNCHANGED <<w, x>>
SpecField == InitField /\ [][NextField]_vars

FieldVal(n) == CASE w = 0 -> 2^n - 1 [] w = 1 -> 0 [] w = 2 -> (43690 % 2^n) [] w = 3 -> 2^(n - 1)
FieldOK ==
  y >= 0 =>
    LET n == y + 1  lo == x IN
    (lo + n > 32) \/
    LET fv == FieldVal(n)
        fld == Shl(32, FromNat(32, fv), lo)
        hole == BvNot(32, Shl(32, FromNat(32, 2^n - 1), lo))
        \* surroundings: all ones when the field has zeros and vice versa, so a shifted window shows
        word == BvOr(32, fld, IF w = 0 THEN Zero(32) ELSE hole)
        mem == [i \in 1..24 |-> (7 * i + x) % 256]
        s0 == [x |-> <<>>, sp |-> Zero(64), f |-> <<0, 0, 0, 0>>, q |-> <<>>, mbase |-> FromNat(64, 4096), mem |-> mem]
        addr == FromNat(64, 4096 + (x % 8))
        nb == 2^(y % 5)
        val == [i \in 1..nb |-> (31 * i + y) % 256]
    IN /\ F(word, lo, n) = fv
       /\ FB(word, lo, n) = FromNat(n, fv)
       /\ n >= 2 /\ n <= 26 =>
            SImm(word, lo, n, 2) = (IF fv < 2^(n - 1) THEN FromNat(64, 4 * fv)
                                    ELSE Neg(64, FromNat(64, 4 * (2^n - fv))))
       \* data window: write then read gives the value back, little-endian = limb order,
       \* big-endian = reversed, bytes outside the access untouched
       /\ \A big \in BOOLEAN :
            LET s1 == MemWrite(s0, big, addr, nb, val) IN
            /\ MemRead(s1, big, addr, nb) = val
            /\ \A j \in 1..24 : (j <= x % 8 \/ j > (x % 8) + nb) => s1.mem[j] = mem[j]
            /\ \A i \in 1..nb : s1.mem[(x % 8) + i] = (IF big THEN val[nb + 1 - i] ELSE val[i])
       /\ InWin(s0, addr, nb) = ((x % 8) + nb <= 24)
       /\ ~InWin(s0, FromNat(64, 4095), 1) /\ ~InWin(s0, FromNat(64, 4096 + 24), 1)
=============================================================================
