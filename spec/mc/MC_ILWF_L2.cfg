CONSTANTS LimbBits = 2  MaxD = 2
SPECIFICATION Spec
INVARIANT AllHold
CHECK_DEADLOCK FALSE
