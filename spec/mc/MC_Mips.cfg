CONSTANTS LimbBits = 8
SPECIFICATION Spec
INVARIANT UnitIsNpcMachine
CHECK_DEADLOCK FALSE
