CONSTANTS
  Ids = {1, 4, 7, 9}
  HeavyMax = 3
SPECIFICATION Spec
INVARIANTS ViewsConsistent DefsAgree
CHECK_DEADLOCK FALSE
