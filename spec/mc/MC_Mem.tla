------------------------------- MODULE MC_Mem -------------------------------
(***************************************************************************)
(* Small-scope exploration of Mem.tla (C08), used for two things.          *)
(*                                                                         *)
(* 1. Regression test of the specification itself: on every reachable      *)
(*    state the definitions of Mem are compared with independent second    *)
(*    formulations (a load as the OR of shifted, zero-extended bytes over  *)
(*    BV; the state as a replay of the history along the clone lineage;    *)
(*    "identical results for every load" by brute force over the window;   *)
(*    ScanRes against LoadRes), and stores are checked never to change     *)
(*    the permission answers.                                              *)
(*                                                                         *)
(* 2. Behaviour generation (specification -> implementation): the          *)
(*    invariant Dump prints every history of the state graph as one JSON   *)
(*    line.  The recorder `c08 --mode gen` replays each history into the   *)
(*    real falcon memory (for V = il::Constant and V = il::Expression, the *)
(*    window placed across the page boundaries at 1024, 2^32 and 2^63),    *)
(*    and Trace_C08 validates what falcon answered.                        *)
(*                                                                         *)
(* Scope: one memory (either endianness, with or without backing), at most *)
(* MaxOps operations out of                                                *)
(*    store(h, offset 0..5, 1..4 bytes)   set_permissions(h, 3 ranges)     *)
(*    clone(0 -> 1)   new(1, either endianness, same backing)              *)
(* over a window whose offset 3 is a page boundary (key 1024).  Stored     *)
(* bytes are unique tags: byte j of the value stored by operation k is     *)
(* 16*k + j (j = 0 least significant), so a misplaced byte is visible.     *)
(***************************************************************************)
EXTENDS Mem, BV, Json

CONSTANTS MaxOps,           \* at most this many operations after the initial `new`
          Alphabet,         \* subset of {"store", "setperm", "clone", "new"}
          PermN             \* permissions are queried at offsets 0 .. PermN-1

VARIABLE hist                \* the operations so far, in the event shape of the recorder
vars == <<mvars, hist>>

W0 == 1021                                      \* key of window offset 0: offset 3 is the page boundary 1024
K(off) == W0 + off
Offs == 0..5
ScanN == 9                                      \* loads at offsets 0..8
ScanBits == <<8, 16, 32, 64>>
PermRanges == {<<0, 2>>, <<4, 2>>, <<1, 4>>}    \* <<offset, length>>: page before / after / both sides

\* the backing: 8 bytes at offsets 2..9 (so offsets 0, 1 and >= 10 are unmapped), permissions 5
BackRegion == [off |-> 2, d |-> [i \in 1..8 |-> 200 + i], p |-> 5]
TheBacks == <<[endian |-> "big",
               cells |-> FromWrites(<<[a |-> K(BackRegion.off), d |-> BackRegion.d, p |-> BackRegion.p]>>)]>>

Tag(k, n) == [j \in 1..n |-> 16 * k + j - 1]    \* little-endian limbs of the k-th operation's value

Init ==
  /\ backs = TheBacks
  /\ \E e \in {"little", "big"}, b \in {0, 1} :
       /\ live = {0} /\ endian = (0 :> e) /\ bk = (0 :> b)
       /\ hist = <<[ev |-> "new", h |-> 0, endian |-> e, bk |-> b]>>
  /\ bytes = (0 :> EmptyCells) /\ perms = (0 :> <<>>) /\ ver = (0 :> 1) /\ stamp = 2

Next ==
  /\ Len(hist) <= MaxOps
  /\ LET k == Len(hist) IN
     \/ \E h \in live, off \in Offs, n \in 1..4 :
          /\ "store" \in Alphabet
          /\ Store(h, K(off), Tag(k, n))
          /\ hist' = Append(hist, [ev |-> "store", h |-> h, off |-> off, v |-> [w |-> 8 * n, v |-> Tag(k, n)]])
     \/ \E h \in live, r \in PermRanges :
          /\ "setperm" \in Alphabet
          /\ SetPerm(h, K(r[1]), r[2], k)
          /\ hist' = Append(hist, [ev |-> "setperm", h |-> h, off |-> r[1], len |-> r[2], p |-> k])
     \/ /\ "clone" \in Alphabet
        /\ Clone(0, 1)
        /\ hist' = Append(hist, [ev |-> "clone", h |-> 0, to |-> 1])
     \/ \E e \in {"little", "big"} :
          /\ "new" \in Alphabet
          /\ New(1, e, bk[0])
          /\ hist' = Append(hist, [ev |-> "new", h |-> 1, endian |-> e, bk |-> bk[0]])
Spec == Init /\ [][Next]_vars

(* ---------------------- behaviour generation --------------------------- *)
Dump ==
  PrintT(<<"HIST", ToJson([backings |-> <<[endian |-> "big", regions |-> <<BackRegion>>]>>,
                           ops |-> hist,
                           scan |-> [n |-> ScanN, bits |-> ScanBits, perm_n |-> PermN]])>>)

(* --------------------- second formulations ----------------------------- *)
\* a load as the implementation's fallback path describes it, on BV: OR of zero-extended bytes
\* shifted to their place (big endian: first byte most significant)
RECURSIVE OrBytes(_,_,_,_,_)
OrBytes(e, bits, bs, i, acc) ==
  IF i > Len(bs) THEN acc
  ELSE LET sh == IF e = "big" THEN (Len(bs) - i) * 8 ELSE (i - 1) * 8 IN
       OrBytes(e, bits, bs, i + 1, TLCEval(BvOr(bits, acc, Shl(bits, Zext(bits, <<bs[i]>>), sh))))
Load2(h, k, bits) ==
  LET n == bits \div 8
      bs == [i \in 1..n |-> ViewByte(h, k + i - 1)]
  IN IF \E i \in 1..n : bs[i] = Absent THEN NoVal ELSE MVal(bits, OrBytes(endian[h], bits, bs, 1, Zero(bits)))

LoadsAgree ==
  \A h \in live : \A off \in 0..(ScanN - 1) : \A i \in 1..Len(ScanBits) :
     LoadRes(h, K(off), ScanBits[i]) = Load2(h, K(off), ScanBits[i])

ScanAgrees ==
  \A h \in live : \A i \in 1..Len(ScanBits) :
     ScanRes(h, K(0), ScanN, ScanBits[i]) = [j \in 1..ScanN |-> LoadRes(h, K(j - 1), ScanBits[i])]

\* the bytes of a handle replayed from the history along its lineage: stores through the handle,
\* and for a clone the stores through handle 0 before the clone event
BytesOf0UpTo(n) ==
  LET RECURSIVE Go(_,_)
      Go(i, acc) == IF i > n THEN acc
                    ELSE LET o == hist[i] IN
                         Go(i + 1, IF o.ev = "store" /\ o.h = 0
                                   THEN TLCEval(StoreBytes(acc, K(o.off), Layout(endian[0], o.v.v))) ELSE acc)
  IN Go(1, EmptyCells)
BirthOf1 == CHOOSE i \in 1..Len(hist) : hist[i].ev = "clone" \/ (hist[i].ev = "new" /\ hist[i].h = 1)
BytesOf1 ==
  LET b == BirthOf1
      start == IF hist[b].ev = "clone" THEN BytesOf0UpTo(b) ELSE EmptyCells
      RECURSIVE Go(_,_)
      Go(i, acc) == IF i > Len(hist) THEN acc
                    ELSE LET o == hist[i] IN
                         Go(i + 1, IF o.ev = "store" /\ o.h = 1
                                   THEN TLCEval(StoreBytes(acc, K(o.off), Layout(endian[1], o.v.v))) ELSE acc)
  IN Go(b + 1, start)
\* clone independence: a handle's bytes are determined by its own lineage only
LineageOnly ==
  /\ bytes[0] = BytesOf0UpTo(Len(hist))
  /\ 1 \in live => bytes[1] = BytesOf1

\* "equality implies identical results for every load", by brute force: all keys lie in the window
WindowKeys == (W0 - 1)..(W0 + 12)
BruteSame(h1, h2) ==
  \A k \in WindowKeys : \A nb \in 1..4 : LoadRes(h1, k, 8 * nb) = LoadRes(h2, k, 8 * nb)
EqDefinitions ==
  \A h1, h2 \in live : h1 <= h2 =>
     /\ SameLoads(h1, h2) = BruteSame(h1, h2)
     /\ TRUE \in EqAllowed(h1, h2) => BruteSame(h1, h2)
     /\ h1 = h2 => EqAllowed(h1, h2) = {TRUE}
     /\ EqAllowed(h1, h2) # {}

\* permissions: exact range of the last call decides; never-set addresses report the backing's
PermDefinitions ==
  \A h \in live : \A off \in 0..(PermN - 1) :
     LET S == PermAllowed(h, K(off))
         i == LastExact(perms[h], Len(perms[h]), K(off))
     IN /\ S # {}
        /\ perms[h] = <<>> => S = {Perm(BackCells(h), K(off))}
        /\ i # 0 => perms[h][i].p \in S
        /\ (i # 0 /\ i = Len(perms[h])) => S = {perms[h][i].p}

DesignOK == LoadsAgree /\ ScanAgrees /\ LineageOnly /\ EqDefinitions /\ PermDefinitions

\* stores never change reported permissions; an unmodified clone compares equal
StoresKeepPerms ==
  [][(perms' = perms /\ live' = live) =>
        \A h \in live : \A off \in 0..(PermN - 1) : PermAllowed(h, K(off))' = PermAllowed(h, K(off))]_vars
CloneEqual ==
  [][(1 \notin live /\ 1 \in live' /\ ver'[1] = ver'[0]) => EqAllowed(0, 1)' = {TRUE}]_vars
=============================================================================
