CONSTANTS LimbBits = 8  MaxW = 0
SPECIFICATION SpecExt
INVARIANT ExtOK
CHECK_DEADLOCK FALSE
