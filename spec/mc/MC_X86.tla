------------------------------- MODULE MC_X86 -------------------------------
(***************************************************************************)
(* Small-scope, exhaustive check of the flag and sub-register algebra of   *)
(* X86.tla against plain integer arithmetic: all operand pairs of widths   *)
(* MinW..MaxW, both carries.  The lemmas are the ones the lifter is judged *)
(* by in Trace_C01:                                                        *)
(*   - result / CF / OF of add, adc, sub, sbb, cmp, neg, inc, dec:         *)
(*     CF of a subtraction is the borrow (a < b + bin as integers), OF is  *)
(*     signed overflow of the true integer result;                         *)
(*   - the 16 condition codes after a compare are the integer relations;   *)
(*   - shifts, rotates and double shifts: result and last bit shifted out; *)
(*   - sub-register writes merge (8/16-bit style), a write is read back,   *)
(*     everything outside the field is preserved ("write ah, read ax"),    *)
(*     a 32-bit write into a 64-bit register zero-extends;                 *)
(*   - widening multiply and the divide overflow test.                     *)
(* One TLC state per (w, x, y); the conjunction is the invariant.  With     *)
(* LimbBits = 8 (the production representation) width 8 is checked for a   *)
(* boundary selection of x against every y.                                *)
(***************************************************************************)
EXTENDS X86, BVMath

CONSTANTS MinW, MaxW, XSel      \* XSel = {}: every x; otherwise only the x in XSel (the y are always exhaustive)

RECURSIVE ToIntF(_,_,_)
ToIntF(a, i, acc) == IF i = 0 THEN acc ELSE ToIntF(a, i - 1, acc * B + a[i])
ToInt(a) == ToIntF(a, Len(a), 0)

VARIABLES w, x, y
vars == <<w, x, y>>
Init == /\ w \in MinW..MaxW
        /\ x \in (IF XSel = {} THEN 0..(2^w - 1) ELSE XSel \cap (0..(2^w - 1)))
        /\ y = -1
Next == /\ y = -1
        /\ y' \in 0..(2^w - 1)
        /\ UNCHANGED <<w, x>>
Spec == Init /\ [][Next]_vars

a == FromNat(w, x)
b == FromNat(w, y)
sx == Signed(w, x)
sy == Signed(w, y)
InS(z) == z >= -(2^(w - 1)) /\ z <= 2^(w - 1) - 1
Fl0 == [CF |-> 0, ZF |-> 0, SF |-> 0, OF |-> 0, DF |-> 0]

AddSub ==
  \A c \in {0, 1} :
    /\ ToInt(AddRes(w, a, b, c)) = Wrap(w, x + y + c)
    /\ AddCF(w, a, b, c) = B01(x + y + c >= 2^w)
    /\ AddOF(w, a, b, AddRes(w, a, b, c)) = B01(~InS(sx + sy + c))
    /\ ToInt(SubRes(w, a, b, c)) = Wrap(w, x - y - c)
    /\ SubCF(w, a, b, c) = B01(x < y + c)                         \* CF of sub = borrow
    /\ SubOF(w, a, b, SubRes(w, a, b, c)) = B01(~InS(sx - sy - c))
    /\ LET f == AddFl(Fl0, w, a, b, c) IN f.ZF = B01(Wrap(w, x + y + c) = 0) /\ f.SF = B01(Wrap(w, x + y + c) >= 2^(w - 1))
    /\ LET f == SubFl(Fl0, w, a, b, c) IN f.ZF = B01(Wrap(w, x - y - c) = 0) /\ f.SF = B01(Wrap(w, x - y - c) >= 2^(w - 1))

\* neg a = 0 - a: CF = (a # 0), OF = (a = most negative)
NegLemma == LET f == SubFl(Fl0, w, Zero(w), a, 0) IN f.CF = B01(x # 0) /\ f.OF = B01(x = 2^(w - 1))

\* the condition codes after cmp a, b
CondLemma ==
  LET f == SubFl(Fl0, w, a, b, 0) IN
  /\ Cond(f, "b")  = (x < y)    /\ Cond(f, "ae") = (x >= y)
  /\ Cond(f, "be") = (x <= y)   /\ Cond(f, "a")  = (x > y)
  /\ Cond(f, "e")  = (x = y)    /\ Cond(f, "ne") = (x # y)
  /\ Cond(f, "l")  = (sx < sy)  /\ Cond(f, "ge") = (sx >= sy)
  /\ Cond(f, "le") = (sx <= sy) /\ Cond(f, "g")  = (sx > sy)
  /\ Cond(f, "s")  = (Wrap(w, x - y) >= 2^(w - 1)) /\ Cond(f, "ns") = (Wrap(w, x - y) < 2^(w - 1))
  /\ Cond(f, "o")  = ~InS(sx - sy) /\ Cond(f, "no") = InS(sx - sy)

\* shifts by k = y mod (w + 2): results and the last bit shifted out as integer expressions
IntBit(z, k) == (z \div 2^k) % 2
ShiftLemma ==
  LET k == y % (w + 2) IN
  /\ ToInt(Shl(w, a, k)) = (IF k >= w THEN 0 ELSE Wrap(w, x * 2^k))
  /\ ToInt(Shr(w, a, k)) = (IF k >= w THEN 0 ELSE x \div 2^k)
  /\ ToInt(AShr(w, a, k)) = AShrM(w, x, k)
  /\ (k >= 1 /\ k <= w) => Bit(a, w - k) = IntBit(x * 2^k, w)            \* CF of shl
  /\ (k >= 1 /\ k <= w) => Bit(a, k - 1) = IntBit(x, k - 1)              \* CF of shr / sar
  /\ LET r == k % w IN
     /\ ToInt(RotL(w, a, r)) = (IF r = 0 THEN x ELSE Wrap(w, x * 2^r) + x \div 2^(w - r))
     /\ ToInt(RotR(w, a, r)) = (IF r = 0 THEN x ELSE x \div 2^r + Wrap(w, x * 2^(w - r)))
  /\ k <= w => ToInt(Trun(w, Shr(2 * w, Shl(2 * w, Concat(w, a, w, b), k), w))) = (((x * 2^w + y) * 2^k) \div 2^w) % 2^w   \* shld
  /\ k <= w => ToInt(Trun(w, Shr(2 * w, Concat(w, b, w, a), k))) = ((y * 2^w + x) \div 2^k) % 2^w                        \* shrd

\* sub-registers of a W = 2w-bit register: "al" = (0, s), "ah" = (s, s), "ax" = (0, 2s) with s = w \div 2
SubRegLemma ==
  LET W == 2 * w  s == w \div 2
      full == Concat(w, a, w, b)  fi == x * 2^w + y
  IN s >= 1 /\ 2 * s <= w =>
     \A v \in 0..(2^s - 1) :
       LET vv == FromNat(s, v)
           lo == SubWr(W, full, 0, s, vv)           \* write "al"
           hi == SubWr(W, full, s, s, vv)           \* write "ah"
       IN /\ ToInt(SubRd(W, lo, 0, s)) = v /\ ToInt(lo) = fi - (fi % 2^s) + v
          /\ ToInt(SubRd(W, hi, s, s)) = v /\ ToInt(hi) = fi - ((fi \div 2^s) % 2^s) * 2^s + v * 2^s
          /\ ToInt(SubRd(W, hi, 0, 2 * s)) = (fi % 2^s) + v * 2^s     \* write ah, read ax
          /\ ToInt(SubRd(W, hi, 0, s)) = fi % 2^s                      \* al untouched
          /\ ToInt(SubRd(W, full, s, s)) = (fi \div 2^s) % 2^s
          /\ IsBV(W, lo) /\ IsBV(W, hi)
\* a 32-bit write into a 64-bit register clears the upper half; a full-width write replaces
ZeroExtLemma ==
  LET v32 == Zext(32, a)  full == Ones(64) IN
  /\ SubWr(64, full, 0, 32, v32) = Zext(64, v32)
  /\ SubWr(64, full, 0, 64, Zext(64, a)) = Zext(64, a)
  /\ SubWr(32, Ones(32), 0, 32, v32) = v32

\* widening multiply: high half zero / sign-extension tests are the integer overflow tests
MulDivLemma ==
  LET p  == Mul(2 * w, Zext(2 * w, a), Zext(2 * w, b))
      ps == Mul(2 * w, Sext(w, 2 * w, a), Sext(w, 2 * w, b))
  IN /\ ToInt(p) = x * y
     /\ IsZero(Trun(w, Shr(2 * w, p, w))) = (x * y < 2^w)
     /\ ToInt(ps) = Wrap(2 * w, sx * sy)
     /\ (Sext(w, 2 * w, Trun(w, ps)) = ps) = InS(sx * sy)
     /\ y # 0 =>
          LET dd == Concat(w, a, w, b)   \* dividend x:y, divisor y
              qr == DivModu(2 * w, dd, Zext(2 * w, b))
          IN /\ ToInt(qr[1]) = (x * 2^w + y) \div y
             /\ IsZero(Shr(2 * w, qr[1], w)) = ((x * 2^w + y) \div y < 2^w)      \* no #DE iff the quotient fits

AllLemmas == AddSub /\ NegLemma /\ CondLemma /\ ShiftLemma /\ SubRegLemma /\ ZeroExtLemma /\ MulDivLemma
Inv == y = -1 \/ AllLemmas
I1 == y = -1 \/ AddSub
I2 == y = -1 \/ NegLemma
I3 == y = -1 \/ CondLemma
I4 == y = -1 \/ ShiftLemma
I5 == y = -1 \/ SubRegLemma
I6 == y = -1 \/ ZeroExtLemma
I7 == y = -1 \/ MulDivLemma
=============================================================================
