---------------------------- MODULE BackingImpl ----------------------------
(***************************************************************************)
(* Implementation-shaped model of lib/memory/backing.rs (C16): the         *)
(* BTreeMap of sections and the five-way overlap split of set_memory,      *)
(* transcribed branch by branch.  spec/mc/MC_Backing checks that it        *)
(* refines Backing.tla (design evidence and regression test of the         *)
(* specification; never a verdict about the code: a changed implementation *)
(* does not change this model).                                            *)
(*                                                                         *)
(* secs : section start key -> [d |-> byte sequence, p |-> permissions]    *)
(*                                                                         *)
(* FixEmpty / FixGet select the repaired variants proposed in              *)
(* parts/C16.fix-2.patch (set_memory ignores an empty write) and           *)
(* parts/C16.fix-1.patch (get returns None instead of unwrapping get8).    *)
(***************************************************************************)
EXTENDS Backing

NoSecs == [x \in {} |-> 0]

Insert(secs, k, d, p) == (k :> [d |-> d, p |-> p]) @@ secs          \* BTreeMap::insert replaces
Remove(secs, k)       == [x \in (DOMAIN secs) \ {k} |-> secs[x]]
Truncate(secs, k, n)  == [secs EXCEPT ![k].d = SubSeq(@, 1, n)]
SplitOff(d, off)      == SubSeq(d, off + 1, Len(d))                 \* Vec::split_off(off): the tail

\* keys in increasing order (BTreeMap iteration)
RECURSIVE SortedKeys(_)
SortedKeys(S) == IF S = {} THEN <<>>
                 ELSE LET m == CHOOSE x \in S : \A y \in S : x <= y IN <<m>> \o SortedKeys(S \ {m})

\* one iteration of the adjustment loop for the snapshot entry (a, l)
Adjust(secs, a, l, address, n) ==
  IF a < address /\ a + l > address THEN
       IF a + l <= address + n THEN Truncate(secs, a, address - a)
       ELSE LET split == SplitOff(secs[a].d, address + n - a)
                withTail == Insert(secs, address + n, split, secs[a].p)
            IN Truncate(withTail, a, address - a)
  ELSE IF a >= address /\ a + l <= address + n THEN Remove(secs, a)
  ELSE IF a >= address /\ a < address + n /\ a + l > address + n THEN
       LET split == SplitOff(secs[a].d, address + n - a)
       IN Insert(Remove(secs, a), address + n, split, secs[a].p)
  ELSE secs

RECURSIVE AdjustAll(_,_,_,_,_)
AdjustAll(secs, als, i, address, n) ==
  IF i > Len(als) THEN secs
  ELSE AdjustAll(TLCEval(Adjust(secs, als[i][1], als[i][2], address, n)), als, i + 1, address, n)

ImplSetMemory(secs, address, data, p, fixEmpty) ==
  IF fixEmpty /\ data = <<>> THEN secs
  ELSE LET ks  == SortedKeys(DOMAIN secs)
           als == [i \in 1..Len(ks) |-> <<ks[i], Len(secs[ks[i]].d)>>]       \* snapshot of (address, length)
       IN Insert(AdjustAll(secs, als, 1, address, Len(data)), address, data, p)

\* section_address: the greatest key <= address, if that section covers address
SectionAddress(secs, address) ==
  LET below == { k \in DOMAIN secs : k <= address } IN
  IF below = {} THEN Absent
  ELSE LET k == CHOOSE x \in below : \A y \in below : y <= x IN
       IF k + Len(secs[k].d) > address THEN k ELSE Absent

ImplGet8(secs, a) ==
  LET k == SectionAddress(secs, a) IN IF k = Absent THEN Absent ELSE secs[k].d[a - k + 1]
ImplPerm(secs, a) ==
  LET k == SectionAddress(secs, a) IN IF k = Absent THEN Absent ELSE secs[k].p

\* get: "panic" when a byte after the first is unmapped (Option::unwrap), unless fixed
ImplGet(secs, endian, a, bits, fixGet) ==
  LET n == bits \div 8
      bs == [i \in 1..n |-> ImplGet8(secs, a + i - 1)]
  IN IF bs[1] = Absent THEN NoVal
     ELSE IF \E i \in 2..n : bs[i] = Absent THEN (IF fixGet THEN NoVal ELSE "panic")
     ELSE MVal(bits, Assemble(endian, bs))

ImplGet32(secs, endian, a) ==
  LET k == SectionAddress(secs, a) IN
  IF k = Absent THEN NoVal
  ELSE IF (a - k) + 4 > Len(secs[k].d) THEN NoVal
  ELSE MVal(32, Assemble(endian, [i \in 1..4 |-> secs[k].d[a - k + i]]))

\* set32: "panic" without a section, "err" when the section is too short
ImplSet32Outcome(secs, a) ==
  LET k == SectionAddress(secs, a) IN
  IF k = Absent THEN "panic" ELSE IF (a - k) + 4 > Len(secs[k].d) THEN "err" ELSE "ok"
ImplSet32(secs, endian, a, limbs) ==
  LET k == SectionAddress(secs, a)
      bs == Layout(endian, limbs)
  IN [secs EXCEPT ![k].d = [i \in 1..Len(@) |-> IF i \in (a - k + 1)..(a - k + 4) THEN bs[i - (a - k)] ELSE @[i]]]

\* sections() in the shape Backing!SectionsDisjoint / SectionsRepresent take
AsSections(secs) ==
  LET ks == SortedKeys(DOMAIN secs) IN [i \in 1..Len(ks) |-> [a |-> ks[i], d |-> secs[ks[i]].d, p |-> secs[ks[i]].p]]

(* ------------- diagnosis of the known empty-write defect ---------------- *)
\* Without FixEmpty an empty write at an address x inside a section replaces the tail of that
\* section from x on (the whole section when x is its start) by an empty section: those bytes are
\* dropped.  `lost` is the set of keys the design-level cells have and the implementation has
\* dropped this way; MC_Backing checks that the transcription above holds exactly the surviving
\* cells.  Trace_C16 uses it only to label a rejection (state class of a known finding) - never
\* to accept anything.
RunFrom(c, lost, x) ==
  { y \in DOMAIN c : y >= x /\ \A z \in x..y : z \in DOMAIN c /\ z \notin lost /\ c[z].r = c[x].r }
\* c: the design-level cells before the write
LostAfterWrite(c, lost, a, data) ==
  IF data # <<>> THEN lost \ (a..(a + Len(data) - 1))
  ELSE IF a \in DOMAIN c /\ a \notin lost THEN lost \cup RunFrom(c, lost, a) ELSE lost
Surviving(c, lost) == [x \in (DOMAIN c) \ lost |-> c[x]]
=============================================================================
