"""Orchestration shared by every check (DESIGN.md sections 2, 3, 7).

A check module (checks/cXX.py) defines `run(ctx)`; it uses the Ctx methods below to
  * build the Rust harness against /repo's current working tree,
  * run recorders (which drive falcon and write ndjson traces / exports),
  * run TLC (trace validation, program exploration, model checking),
  * hand every rejected observation to `ctx.reject(...)`,
and finally calls `ctx.finish(coverage)` which classifies rejections against
known_findings.json, writes replay files and evidence/<id>.json, prints the
VIOLATION / KNOWN-FINDING lines and exits 0 / 1.  Tool failures raise ToolError -> exit 2.
"""
import concurrent.futures
import hashlib
import json
import os
import re
import shutil
import subprocess
import sys
import time

ROOT = os.path.dirname(os.path.dirname(os.path.abspath(__file__)))
SPEC = os.path.join(ROOT, "spec")
# FV_HARNESS: a scratch copy of harness/ whose Cargo.toml points at a scratch worktree of /repo
# (sensitivity experiments only; no evidence is written)
HARNESS = os.environ.get("FV_HARNESS") or os.path.join(ROOT, "harness")
ALT = bool(os.environ.get("FV_HARNESS"))
WORK = os.path.join(ROOT, "work")
EVIDENCE = os.path.join(ROOT, "evidence")
TLA_CP = "/opt/veriftools/tla/tla2tools.jar:/opt/veriftools/tla/CommunityModules-deps.jar"
NCPU = os.cpu_count() or 4


class ToolError(Exception):
    pass


def log(msg):
    print(msg, file=sys.stderr, flush=True)


def sh(cmd, **kw):
    return subprocess.run(cmd, **kw)


# ----------------------------------------------------------------------------------------------
# TLC
# ----------------------------------------------------------------------------------------------
class TlcResult:
    def __init__(self):
        self.generated = 0          # states generated (TLC's transition count incl. initial states)
        self.distinct = 0
        self.depth = 0
        self.rejects = []           # parsed REJECT records (dicts)
        self.prints = []            # other PrintT tuples, raw text
        self.ok = False             # TLC finished without reporting an error
        self.invariant_violated = None
        self.output = ""
        self.coverage = {}          # action name -> (distinct, total) when -coverage was on
        self.wall = 0.0
        self.cmd = ""


_REJECT = re.compile(r'^<<"REJECT", "(.*)">>\s*$')
_STATES = re.compile(r"^(\d+) states generated, (\d+) distinct states found")
_DEPTH = re.compile(r"^The depth of the complete state graph search is (\d+)")
_COVER = re.compile(r"^<(\w+) line \d+, col \d+ to line \d+, col \d+ of module (\w+)>: (\d+):(\d+)")


def _unescape_tla_string(s):
    # TLC prints strings with \" and \\ escaped
    return s.replace('\\"', '"').replace("\\\\", "\\")


def run_tlc(module_path, cfg_path, env=None, workers=1, heap="2g", timeout=900, metadir=None,
            coverage=False, simulate=None, depth_first=True, extra_args=None):
    """Run TLC on module_path with cfg_path.  Returns TlcResult; raises ToolError on crash/timeout."""
    res = TlcResult()
    e = dict(os.environ)
    jto = "-Xss1g -DTLA-Library=%s" % SPEC
    if depth_first:
        jto += " -Dtlc2.tool.queue.IStateQueue=StateDeque"
    e["JAVA_TOOL_OPTIONS"] = jto
    if env:
        e.update({k: str(v) for k, v in env.items()})
    if metadir is None:
        metadir = os.path.join(WORK, "tlc", "m%d_%d" % (os.getpid(), int(time.time() * 1e6) % 10**9))
    os.makedirs(os.path.dirname(metadir), exist_ok=True)
    # TLC leaves a scratch directory per run in java.io.tmpdir: keep it under work/ and remove it with the run
    jtmp = metadir + "_tmp"
    os.makedirs(jtmp, exist_ok=True)
    e["JAVA_TOOL_OPTIONS"] = e["JAVA_TOOL_OPTIONS"] + " -Djava.io.tmpdir=" + jtmp
    cmd = ["java", "-XX:+UseParallelGC", "-Xmx" + heap, "-cp", TLA_CP, "tlc2.TLC",
           "-workers", str(workers), "-metadir", metadir, "-cleanup", "-noGenerateSpecTE",
           "-config", cfg_path]
    if coverage:
        cmd += ["-coverage", "1"]
    if simulate:
        cmd += ["-simulate", simulate]
    if extra_args:
        cmd += extra_args
    cmd.append(module_path)
    res.cmd = " ".join(cmd)
    t0 = time.time()
    try:
        p = sh(cmd, env=e, stdout=subprocess.PIPE, stderr=subprocess.STDOUT, timeout=timeout,
               cwd=os.path.dirname(module_path), text=True, errors="replace")
    except subprocess.TimeoutExpired:
        shutil.rmtree(metadir, ignore_errors=True)
        shutil.rmtree(jtmp, ignore_errors=True)
        raise ToolError("TLC timeout after %ss: %s" % (timeout, res.cmd))
    res.wall = time.time() - t0
    shutil.rmtree(metadir, ignore_errors=True)
    shutil.rmtree(jtmp, ignore_errors=True)
    out = p.stdout
    res.output = out
    for line in out.splitlines():
        m = _REJECT.match(line)
        if m:
            try:
                res.rejects.append(json.loads(_unescape_tla_string(m.group(1))))
            except Exception as ex:  # malformed: tool error, never silently dropped
                raise ToolError("cannot parse REJECT line: %s (%s)" % (line[:300], ex))
            continue
        m = _STATES.match(line)
        if m:
            res.generated, res.distinct = int(m.group(1)), int(m.group(2))
            continue
        m = _DEPTH.match(line)
        if m:
            res.depth = int(m.group(1))
            continue
        m = _COVER.match(line)
        if m:
            res.coverage[m.group(1)] = (int(m.group(3)), int(m.group(4)))
            continue
        if line.startswith("<<"):
            res.prints.append(line)
        if line.startswith("Error: Invariant ") and "is violated" in line:
            res.invariant_violated = line.split()[2]
    res.ok = ("Model checking completed. No error has been found." in out) or \
             (simulate is not None and "Error:" not in out)
    return res


def tlc_error_summary(res, n=40):
    lines = [l for l in res.output.splitlines() if not l.startswith(("Linting", "Semantic", "Parsing"))]
    idx = [i for i, l in enumerate(lines) if l.startswith("Error")]
    start = max(0, idx[0] - 2) if idx else max(0, len(lines) - n)
    return "\n".join(lines[start:start + n])


# ----------------------------------------------------------------------------------------------
# check context
# ----------------------------------------------------------------------------------------------
class Ctx:
    def __init__(self, prop, tier, seed, level="model_checking", replay=None):
        self.prop = prop
        self.tier = tier
        self.seed = seed
        self.level = level
        self.replay_path = replay
        self.t0 = time.time()
        # one scratch directory per property and kind of run, so that the quick and the thorough command (or a
        # replay) of one property may run at the same time
        kind = "" if (replay is None and tier == "quick") else ("-" + (tier if replay is None else ("selftest" if replay == "selftest" else "replay")))
        self.work = os.path.join(WORK, prop.lower() + kind + ("-alt" if ALT else ""))
        shutil.rmtree(self.work, ignore_errors=True)
        os.makedirs(self.work, exist_ok=True)
        os.makedirs(os.path.join(WORK, "replays"), exist_ok=True)
        self.rejections = []        # dicts: {why, event/inputs..., expected, ...}
        self.states = 0
        self.transitions = 0
        self.traces = 0             # sessions / programs / instances validated against the implementation
        self.samples = []
        self.assumptions = []
        self.extra = {}
        self.mc = {}
        self.quick = tier == "quick"

    # ------------------------------------------------------------------ harness
    def build(self, bins=None):
        """cargo build of the harness against /repo's current working tree (offline, dev profile)."""
        t = time.time()
        cmd = ["cargo", "build", "--offline", "--quiet"]
        for b in bins or []:
            cmd += ["--bin", b]
        env = dict(os.environ, CARGO_NET_OFFLINE="true", RUSTFLAGS="")
        env.pop("RUSTFLAGS")
        p = sh(cmd, cwd=HARNESS, stdout=subprocess.PIPE, stderr=subprocess.STDOUT, text=True, env=env)
        if p.returncode != 0:
            raise ToolError("harness build failed:\n" + p.stdout[-4000:])
        log("[%s] harness built in %.1fs" % (self.prop, time.time() - t))

    def bin(self, name):
        return os.path.join(HARNESS, "target", "debug", name)

    def record(self, binname, args, out_name, timeout=600, mem_gb=8, extra_env=None, allow_fail=False):
        """Run a recorder; returns the output path.  The recorder writes ndjson to --out."""
        out = os.path.join(self.work, out_name)
        cmd = ["prlimit", "--as=%d" % (mem_gb << 30), self.bin(binname)] + [str(a) for a in args] + ["--out", out]
        env = dict(os.environ, VERIF_SEED=str(self.seed))
        if extra_env:
            env.update(extra_env)
        try:
            p = sh(cmd, env=env, stdout=subprocess.PIPE, stderr=subprocess.PIPE, text=True, timeout=timeout,
                   errors="replace")
        except subprocess.TimeoutExpired:
            raise ToolError("recorder timeout: %s" % " ".join(cmd))
        if p.returncode != 0 and not allow_fail:
            raise ToolError("recorder failed (%d): %s\n%s" % (p.returncode, " ".join(cmd), p.stderr[-3000:]))
        self.last_record_stderr = p.stderr
        self.last_record_rc = p.returncode
        return out

    def record_many(self, jobs, parallel=None):
        """jobs: list of (binname, args, out_name[, kwargs]).  Runs recorders in parallel."""
        parallel = parallel or min(NCPU, len(jobs)) or 1
        with concurrent.futures.ThreadPoolExecutor(parallel) as ex:
            futs = [ex.submit(self.record, j[0], j[1], j[2], **(j[3] if len(j) > 3 else {})) for j in jobs]
            return [f.result() for f in futs]

    # ------------------------------------------------------------------ traces
    @staticmethod
    def read_ndjson(path):
        with open(path) as f:
            return [json.loads(l) for l in f if l.strip()]

    def shard(self, path, n, by_session=False, begin_key="begin"):
        """Split an ndjson file into <= n shards (whole sessions if by_session)."""
        with open(path) as f:
            lines = [l for l in f if l.strip()]
        if not lines:
            return []
        units = []
        if by_session:
            cur = []
            for l in lines:
                if ('"ev":"%s"' % begin_key) in l and cur:
                    units.append(cur)
                    cur = []
                cur.append(l)
            if cur:
                units.append(cur)
        else:
            units = [[l] for l in lines]
        n = max(1, min(n, len(units)))
        per = (len(units) + n - 1) // n
        outs = []
        for i in range(0, len(units), per):
            p = "%s.s%02d" % (path, len(outs))
            with open(p, "w") as f:
                for u in units[i:i + per]:
                    f.writelines(u)
            outs.append(p)
        return outs

    def tlc_trace(self, module, trace_path, cfg=None, env=None, timeout=900, heap="2g", name=None,
                  require_consumed=True):
        """Validate one ndjson trace with spec/trace/<module>.tla.  Rejections are returned with
        the recorded event attached (`event`), and counted; a trace that is not fully consumed is
        a tool error (never a pass)."""
        mod = os.path.join(SPEC, "trace", module + ".tla")
        cfgp = cfg or os.path.join(SPEC, "trace", module + ".cfg")
        if not os.path.isabs(cfgp):
            cfgp = os.path.join(SPEC, "trace", cfgp)
        trace_path = os.path.abspath(trace_path)
        e = {"TRACE": trace_path}
        if env:
            e.update(env)
        r = run_tlc(mod, cfgp, env=e, workers=1, heap=heap, timeout=timeout)
        if not r.ok:
            raise ToolError("TLC did not accept the run of %s on %s:\n%s" % (module, trace_path, tlc_error_summary(r)))
        events = None
        for rj in r.rejects:
            if events is None:
                with open(trace_path) as f:
                    events = [l for l in f if l.strip()]
            ln = rj.get("line")
            if isinstance(ln, int) and 1 <= ln <= len(events):
                rj["event"] = json.loads(events[ln - 1])
            rj["trace"] = os.path.relpath(trace_path, ROOT)
        self.states += r.distinct
        self.transitions += max(0, r.generated - 1)
        return r

    def tlc_trace_many(self, module, paths, parallel=None, **kw):
        parallel = parallel or min(NCPU, len(paths)) or 1
        with concurrent.futures.ThreadPoolExecutor(parallel) as ex:
            futs = [ex.submit(self.tlc_trace, module, p, **kw) for p in paths]
            return [f.result() for f in futs]

    def tlc_explore(self, module, prog_path, cfg=None, workers=4, timeout=1500, heap="6g", env=None):
        """Program exploration (spec/explore/<module>.tla): TLC explores every execution of the
        exported programs (env PROG) and prints one REJECT record per failed claim.  Returns the
        TlcResult; rejections get the exported program attached as `program`."""
        mod = os.path.join(SPEC, "explore", module + ".tla")
        cfgp = os.path.join(SPEC, "explore", cfg or (module + ".cfg"))
        prog_path = os.path.abspath(prog_path)
        e = {"PROG": prog_path}
        if env:
            e.update(env)
        r = run_tlc(mod, cfgp, env=e, workers=workers, heap=heap, timeout=timeout, depth_first=False)
        if not r.ok:
            raise ToolError("TLC failed exploring %s with %s:\n%s" % (prog_path, module, tlc_error_summary(r)))
        progs = None
        seen = set()
        uniq = []
        for rj in r.rejects:
            key = json.dumps(rj.get("expected", rj), sort_keys=True) if "expected" in rj else json.dumps(
                {k: v for k, v in rj.items() if k not in ("path", "init", "actual")}, sort_keys=True)
            if key in seen:
                continue
            seen.add(key)
            if progs is None:
                with open(prog_path) as f:
                    progs = json.load(f)["progs"]
            pi = rj.get("prog")
            if isinstance(pi, int) and 1 <= pi <= len(progs):
                rj["program"] = progs[pi - 1]
            rj["export"] = os.path.relpath(prog_path, ROOT)
            uniq.append(rj)
        r.rejects = uniq
        self.states += r.distinct
        self.transitions += r.generated
        return r

    def tlc_explore_many(self, module, paths, parallel=4, **kw):
        with concurrent.futures.ThreadPoolExecutor(parallel) as ex:
            futs = [ex.submit(self.tlc_explore, module, p, **kw) for p in paths]
            return [f.result() for f in futs]

    def tlc_mc(self, module, cfg, workers=None, timeout=1800, heap="8g", env=None, key=None, coverage=False):
        """Model-check spec/mc/<module>.tla with cfg.  A failure here is a regression of the
        *specification* (it does not depend on /repo): it is a tool error, not a violation."""
        mod = os.path.join(SPEC, "mc", module + ".tla")
        cfgp = os.path.join(SPEC, "mc", cfg)
        # MC runs do not depend on /repo: the quick tier re-uses the statistics of an earlier
        # identical run (same module texts, same cfg), reported as cached.
        h = hashlib.sha1()
        for fn in sorted(os.listdir(SPEC)) + [os.path.join("mc", module + ".tla"), os.path.join("mc", cfg)]:
            fp = os.path.join(SPEC, fn)
            if os.path.isfile(fp) and (fn.endswith(".tla") or fn.endswith(".cfg")):
                with open(fp, "rb") as f:
                    h.update(fn.encode() + b"\0" + f.read())
        h.update(json.dumps(env or {}, sort_keys=True).encode())
        cdir = os.path.join(WORK, "mc_cache")
        os.makedirs(cdir, exist_ok=True)
        cpath = os.path.join(cdir, "%s-%s-%s.json" % (module, cfg.replace(".cfg", ""), h.hexdigest()[:16]))
        if self.quick and os.path.exists(cpath) and not os.environ.get("VERIF_NO_MC_CACHE"):
            with open(cpath) as f:
                c = json.load(f)
            c["cached"] = True
            self.mc[key or cfg] = c
            self.states += c["distinct_states"]
            self.transitions += c["states_generated"]
            return None
        r = run_tlc(mod, cfgp, env=env, workers=workers or NCPU, heap=heap, timeout=timeout,
                    coverage=coverage, depth_first=False)
        if not r.ok:
            raise ToolError("model checking of %s/%s failed:\n%s" % (module, cfg, tlc_error_summary(r)))
        self.states += r.distinct
        self.transitions += r.generated
        self.mc[key or cfg] = {"distinct_states": r.distinct, "states_generated": r.generated,
                               "depth": r.depth, "wall_s": round(r.wall, 1),
                               "coverage": {k: v[1] for k, v in r.coverage.items()}}
        with open(cpath, "w") as f:
            json.dump(self.mc[key or cfg], f)
        return r

    # ------------------------------------------------------------------ verdicts
    def reject(self, rec):
        """Record one rejected observation of the real code (dict; must be JSON-serialisable and
        contain whatever is needed to replay it: normally the recorded event)."""
        self.rejections.append(rec)

    def add_rejects(self, tlc_results):
        for r in tlc_results if isinstance(tlc_results, list) else [tlc_results]:
            for rj in r.rejects:
                self.reject(rj)

    def sample(self, obj, limit=3):
        if len(self.samples) < limit:
            self.samples.append(obj)

    def _known(self):
        """status=known entries for this property from known_findings/*.json (committed; never
        written at run time)."""
        d = os.path.join(ROOT, "known_findings")
        out = []
        if os.path.isdir(d):
            for fn in sorted(os.listdir(d)):
                if fn.endswith(".json"):
                    with open(os.path.join(d, fn)) as f:
                        data = json.load(f)
                    out += [k for k in data.get("findings", [])
                            if k.get("property") == self.prop and k.get("status") == "known"]
        return out

    @staticmethod
    def _matches(entry, rec):
        e = rec.get("event", rec)
        try:
            return bool(eval(entry["match"], {"__builtins__": {"len": len, "any": any, "all": all, "str": str,
                                                               "int": int, "isinstance": isinstance, "dict": dict,
                                                               "list": list, "set": set, "min": min, "max": max,
                                                               "sum": sum, "abs": abs, "sorted": sorted, "range": range}},
                             {"e": e, "r": rec}))
        except Exception:
            return False

    def finish(self, coverage=None):
        known = self._known()
        met = {}
        violations = []
        for rec in self.rejections:
            hit = None
            for k in known:
                if self._matches(k, rec):
                    hit = k
                    break
            if hit is not None:
                met.setdefault(hit["id"], [hit, 0])[1] += 1
            else:
                violations.append(rec)
        # replay files: one per violation (capped), self-contained
        vio_paths = []
        for rec in violations[:20]:
            blob = json.dumps(rec, sort_keys=True)
            h = hashlib.sha1(blob.encode()).hexdigest()[:12]
            p = os.path.join(WORK, "replays", "%s-%s.json" % (self.prop, h))
            with open(p, "w") as f:
                json.dump({"property": self.prop, "seed": self.seed, "tier": self.tier, "rejection": rec}, f, indent=1)
            vio_paths.append(os.path.relpath(p, ROOT))
        wall = time.time() - self.t0
        cov = {
            "states": int(self.states),
            "transitions": int(self.transitions),
            "traces_validated_against_impl": int(self.traces),
            "samples": self.samples[:5] if self.samples else [{"note": "no sample recorded"}],
            "model_checking_runs": self.mc,
            "rejections_total": len(self.rejections),
            "known_findings_met": {k: v[1] for k, v in met.items()},
        }
        if coverage:
            cov.update(coverage)
        cov.update(self.extra)
        if self.level in ("exploration", "fault_enumeration"):
            cov.setdefault("evaluations", int(self.traces))
            cov.setdefault("distinct_nontrivial", int(self.traces))
            cov.setdefault("rule", "see DESIGN.md")
        ev = {
            "property_id": self.prop,
            "tier": self.tier,
            "seed": int(self.seed),
            "level": self.level,
            "coverage": cov,
            "assumptions": self.assumptions,
            "wall_s": round(wall, 2),
            "violations": len(violations),
        }
        if self.replay_path is None and not ALT:
            os.makedirs(EVIDENCE, exist_ok=True)
            with open(os.path.join(EVIDENCE, "%s.json" % self.prop), "w") as f:
                json.dump(ev, f, indent=1, sort_keys=True)
        for kid, (k, n) in sorted(met.items()):
            print("KNOWN-FINDING: property=%s %s [%s x%d]" % (self.prop, k["what"], kid, n))
        for p in vio_paths:
            print("VIOLATION property=%s replay=%s" % (self.prop, p))
        if len(violations) > len(vio_paths):
            print("(%d further violations not written out)" % (len(violations) - len(vio_paths)))
        print("[%s] tier=%s seed=%d states=%d transitions=%d traces=%d rejections=%d violations=%d wall=%.1fs" % (
            self.prop, self.tier, self.seed, self.states, self.transitions, self.traces, len(self.rejections),
            len(violations), wall))
        sys.stdout.flush()
        sys.exit(1 if violations else 0)
