#!/usr/bin/env python3
"""Regenerate the generated parts of DESIGN.md (between <!-- GEN:x --> ... <!-- /GEN:x --> markers):
seeds table (from seeded/*/meta.json) and findings table (from known_findings/*.json)."""
import glob, json, os, re, subprocess
os.chdir("/verif")

def seeds():
    rows = []
    for p in sorted(glob.glob("seeded/*/meta.json")):
        m = json.load(open(p))
        name = os.path.basename(os.path.dirname(p))
        rows.append("| %s | %s | %s | %s |" % (name, (m.get("title") or "").replace("|", "/")[:110],
                                            (m.get("needs_to_manifest") or "").replace("|", "/").replace("\n", " ")[:170],
                                            m.get("detected_by_check")))
    n = len(rows)
    ds = [json.load(open(p)).get("detected_by_check") for p in glob.glob("seeded/*/meta.json")]
    yes = sum(1 for d in ds if d == "yes")
    aft = sum(1 for d in ds if d == "after-strengthening")
    no = sum(1 for d in ds if d == "no")
    other = n - yes - aft - no
    head = ("%d changes were written by independent sub-agents that saw only the property text and a scratch worktree; "
            "each was confirmed by the lead (demo passes on the pristine tree, fails with the change, 443 unit tests still pass). "
            "%d were reported by the quick tier of the property's check as first built, %d after the check's generator or "
            "specification was strengthened (the miss is recorded in the entry), %d only by the check of the property that "
            "owns the changed file, %d are still missed (see the entry).\n\n"
            % (n, yes, aft, other, no))
    return head + "| seed | change | needs | detected |\n|---|---|---|---|\n" + "\n".join(rows) + "\n"

def findings():
    return subprocess.run(["python3", "tools/findings_table.py"], capture_output=True, text=True).stdout

s = open("DESIGN.md").read()
for key, fn in (("seeds", seeds), ("findings", findings)):
    a, b = "<!-- GEN:%s -->" % key, "<!-- /GEN:%s -->" % key
    if a in s:
        s = s[:s.index(a) + len(a)] + "\n" + fn() + s[s.index(b):]
open("DESIGN.md", "w").write(s)
