#!/bin/sh
# tools/mkseed.sh <name>: scratch worktree of /repo HEAD at /tmp/seed-<name> with a warm target dir
set -e
n=$1
git -C /repo worktree add -f /tmp/seed-$n HEAD >/dev/null 2>&1
mkdir -p /tmp/seed-$n/target
rsync -a /repo/target/ /tmp/seed-$n/target/
cp /repo/Cargo.lock /tmp/seed-$n/Cargo.lock
echo /tmp/seed-$n
