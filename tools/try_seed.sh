#!/bin/sh
# tools/try_seed.sh <patch> <ID> [tier]: apply a patch to the scratch tree $WT (default /tmp/wt-lead), run the
# check against it through the scratch harness $H (default /tmp/h-lead), and restore the scratch tree.
set -e
patch=$1; id=$2; tier=${3:-quick}
WT=${WT:-/tmp/wt-lead}; H=${H:-/tmp/h-lead}
cd $WT && git checkout -q -- . && git apply "$patch"
rsync -a --exclude target --exclude Cargo.toml /verif/harness/ $H/
cd /verif && FV_HARNESS=$H ./check $id --tier $tier 2>&1 | grep -E "VIOLATION|KNOWN-FINDING|^\[C|TOOL-ERROR" | head -${LINES_MAX:-8}
echo "exit: $?"
cd $WT && git checkout -q -- .
