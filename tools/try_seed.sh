#!/bin/sh
# tools/try_seed.sh <patch> <ID> [tier]: apply a patch to the scratch tree /tmp/wt-lead, run the
# check against it through the scratch harness /tmp/h-lead, and restore the scratch tree.
set -e
patch=$1; id=$2; tier=${3:-quick}
cd /tmp/wt-lead && git checkout -q -- . && git apply "$patch"
rsync -a --exclude target --exclude Cargo.toml /verif/harness/ /tmp/h-lead/
cd /verif && FV_HARNESS=/tmp/h-lead ./check $id --tier $tier 2>&1 | grep -E "VIOLATION|KNOWN-FINDING|^\[C|TOOL-ERROR" | head -${LINES_MAX:-8}
echo "exit: $?"
cd /tmp/wt-lead && git checkout -q -- .
