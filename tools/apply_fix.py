#!/usr/bin/env python3
"""tools/apply_fix.py <ID> <n> [finding-id ...]: apply parts/<ID>.fix-<n>.patch to /repo, run the
test-suite, commit with parts/<ID>.fix-<n>.msg, and flip the named known findings to 'fixed'."""
import json, subprocess, sys, re
pid, n = sys.argv[1], sys.argv[2]
fids = sys.argv[3:]
patch = "/verif/parts/%s.fix-%s.patch" % (pid, n)
msg = open("/verif/parts/%s.fix-%s.msg" % (pid, n)).read()
msg = "\n".join(l for l in msg.splitlines() if "/verif" not in l and "known finding" not in l).strip() + "\n"
assert msg.startswith("fix:"), msg[:50]
r = subprocess.run(["git", "-C", "/repo", "apply", "--check", patch], capture_output=True, text=True)
if r.returncode != 0:
    print("patch does not apply:", r.stderr); sys.exit(1)
subprocess.run(["git", "-C", "/repo", "apply", patch], check=True)
t = subprocess.run("cd /repo && cargo test --workspace --no-fail-fast --offline --quiet 2>&1 | grep -E 'test result|FAILED|^error'", shell=True, capture_output=True, text=True)
print(t.stdout)
if "443 passed; 0 failed" not in t.stdout or "error" in t.stdout:
    print("tests do not pass; reverting"); subprocess.run(["git", "-C", "/repo", "checkout", "--", "."]); sys.exit(1)
subprocess.run(["git", "-C", "/repo", "commit", "-qam", msg], check=True)
h = subprocess.run(["git", "-C", "/repo", "rev-parse", "--short", "HEAD"], capture_output=True, text=True).stdout.strip()
print("committed", h)
p = "/verif/known_findings/%s.json" % pid
d = json.load(open(p))
for f in d["findings"]:
    if f["id"] in fids:
        f["status"] = "fixed"; f["commit"] = h
        f["record"] = "fixed: property=%s %s %s" % (pid, h, f.get("what", ""))
json.dump(d, open(p, "w"), indent=1)
