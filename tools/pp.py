"""Pretty-printer for exported IL functions (debugging aid)."""
import json


def se(e):
    k = e['k']
    if k == 'none': return ''
    if k == 'const': return '%d:%d' % (int.from_bytes(bytes(e['v']), 'little'), e['w'])
    if k == 'scalar': return e['n'] + ('.%d' % e['ssa'] if e.get('ssa', -1) >= 0 else '')
    if k in ('zext', 'sext', 'trun'): return '%s%d(%s)' % (k, e['w'], se(e['a']))
    if k == 'ite': return 'ite(%s,%s,%s)' % (se(e['c']), se(e['a']), se(e['b']))
    return '(%s %s %s)' % (se(e['a']), k, se(e['b']))


def so(o):
    k = o['k']
    if k == 'assign': return se(o['dst']) + ' = ' + se(o['src'])
    if k == 'store': return '[' + se(o['idx']) + '] = ' + se(o['src'])
    if k == 'load': return se(o['dst']) + ' = [' + se(o['idx']) + ']'
    if k == 'branch': return 'branch ' + se(o['target'])
    if k == 'intrinsic':
        w = 'ANY' if o['written']['k'] == 'none' else [se(x) for x in o['written']['l']]
        r = 'ANY' if o['read']['k'] == 'none' else [se(x) for x in o['read']['l']]
        return 'intrinsic writes=%s reads=%s' % (w, r)
    return k


def pf(f, other=None):
    out = []
    for bi, b in enumerate(f['blocks']):
        out.append('block %d' % b['i'])
        for ph in b.get('phi', []):
            out.append('    phi %s = entry:%s %s' % (se(ph['out']), se(ph['entry']) if ph['entry']['k'] != 'none' else '-',
                                                   ['%d:%s' % (x['pred'], se(x['s'])) for x in ph['inc']]))
        for ii, i in enumerate(b['ins']):
            line = '    %d  %s' % (i['i'], so(i['op']))
            if other is not None:
                o2 = other['blocks'][bi]['ins'][ii]['op']
                if o2 != i['op']:
                    line += '        ==>  ' + so(o2)
            out.append(line)
    for e in f['edges']:
        out.append('edge %d -> %d  %s' % (e['h'], e['t'], se(e['c'])))
    out.append('entry %s' % f.get('entry'))
    return '\n'.join(out)
