#!/usr/bin/env python3
"""tools/keep_seed.py <worktree> <i> <PROP> <detected: yes|no|after-strengthening> <check result line> [note]
Copy a confirmed seeded change into /verif/seeded/<PROP>-<name>/ with meta.json."""
import json, os, shutil, sys
wt, i, prop, detected, result = sys.argv[1:6]
note = sys.argv[6] if len(sys.argv) > 6 else ""
src = os.path.join(wt, "out", i)
meta = json.load(open(os.path.join(src, "meta.json")))
name = os.environ.get("SEED_NAME") or "%s-%s" % (prop, i)
dst = os.path.join("/verif/seeded", name)
os.makedirs(dst, exist_ok=True)
shutil.copy(os.path.join(src, "patch.diff"), os.path.join(dst, "patch.diff"))
shutil.copy(os.path.join(src, "demo.rs"), os.path.join(dst, "demo.rs"))
conf = ""
for l in open("/verif/work/confirm_all.log"):
    if l.startswith("%s %s |" % (wt, i)):
        conf = l.strip()
out = {
    "property": prop,
    "title": meta.get("title"),
    "what_it_breaks": meta.get("what_it_breaks"),
    "needs_to_manifest": meta.get("needs_to_manifest"),
    "why_existing_tests_pass": meta.get("why_existing_tests_pass"),
    "author": "independent sub-agent given only the property text and a scratch worktree",
    "confirmed_by_lead": conf,
    "how_to_confirm": "cp demo.rs <worktree>/tests/demo.rs; cargo test --offline --test demo (passes); git apply patch.diff; "
                      "cargo test --offline --test demo (fails); cargo test --offline --lib (443 pass)",
    "check_run": "git -C /repo apply seeded/%s/patch.diff; ./check %s --tier quick; git -C /repo checkout -- ." % (name, prop),
    "detected_by_check": detected,
    "check_result": result,
    "note": note,
}
json.dump(out, open(os.path.join(dst, "meta.json"), "w"), indent=1)
print(dst)
