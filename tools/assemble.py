#!/usr/bin/env python3
"""Merge parts/<ID>.manifest.json entries into MANIFEST.json (entries written by the lead for
properties without a part file are kept)."""
import glob, json, os
os.chdir("/verif")
m = json.load(open("MANIFEST.json"))
have = {c["property_id"]: c for c in m["checks"]}
for p in sorted(glob.glob("parts/C*.manifest.json")):
    e = json.load(open(p))
    if isinstance(e, list):
        for x in e:
            have[x["property_id"]] = x
    else:
        have[e["property_id"]] = e
only = os.environ.get("ONLY")
m["checks"] = [have[k] for k in sorted(have) if (not only or k in only.split(",") or k in {c["property_id"] for c in m["checks"]})]
m["engines"][0]["serves_properties"] = [c["property_id"] for c in m["checks"]]
json.dump(m, open("MANIFEST.json", "w"), indent=1)
print([c["property_id"] for c in m["checks"]])
