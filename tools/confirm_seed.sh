#!/bin/sh
# tools/confirm_seed.sh <worktree> <i>: confirm a seeded change independently:
#  demo passes on the pristine tree, fails with the patch, and the unit-test suite still passes with the patch.
wt=$1; i=$2
cd $wt || exit 2
git checkout -q -- . 2>/dev/null
mkdir -p tests; cp out/$i/demo.rs tests/demo_$i.rs
a=$(cargo test --offline --test demo_$i 2>&1 | grep -E "^test result" | head -1)
git apply out/$i/patch.diff || { echo "PATCH-DOES-NOT-APPLY"; rm -f tests/demo_$i.rs; exit 1; }
b=$(cargo test --offline --test demo_$i 2>&1 | grep -E "^test result" | head -1)
rm -f tests/demo_$i.rs; rmdir tests 2>/dev/null
c=$(cargo test --offline --lib 2>&1 | grep -E "^test result" | head -1)
git checkout -q -- .
echo "$wt $i | pristine: $a | patched: $b | suite with patch: $c"
