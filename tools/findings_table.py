#!/usr/bin/env python3
"""Print a markdown table of all known findings / fixed defects (from known_findings/*.json)."""
import glob, json
rows = []
for p in sorted(glob.glob("/verif/known_findings/C*.json")):
    for f in json.load(open(p)).get("findings", []):
        rows.append((f["property"], f["id"], f["status"], f.get("commit", ""), (f.get("what") or "").replace("|", "/")[:150]))
print("| property | id | status | commit | what |")
print("|---|---|---|---|---|")
for r in rows:
    print("| %s | %s | %s | %s | %s |" % r)
print()
print("%d entries: %d fixed, %d known" % (len(rows), sum(1 for r in rows if r[2] == "fixed"), sum(1 for r in rows if r[2] == "known")))
