#!/bin/sh
# Run once after a fresh restore, offline: build the harness from files on disk, parse every
# specification, and populate the model-checking cache (MC runs do not depend on /repo).
set -e
cd "$(dirname "$0")"
export CARGO_NET_OFFLINE=true
mkdir -p work evidence
echo "[setup] building harness (offline, dev profile)"
(cd harness && cargo build --offline --quiet)
echo "[setup] parsing specifications with SANY"
fail=0
for f in spec/*.tla spec/mc/*.tla spec/trace/*.tla spec/explore/*.tla; do
  [ -f "$f" ] || continue
  d=$(dirname "$f")
  if ! (cd "$d" && java -DTLA-Library="$PWD/../:$PWD/../../spec:$PWD" -cp /opt/veriftools/tla/tla2tools.jar:/opt/veriftools/tla/CommunityModules-deps.jar tla2sany.SANY "$(basename "$f")" >/tmp/sany.$$ 2>&1); then
    echo "SANY failed on $f"; tail -20 /tmp/sany.$$; fail=1
  elif grep -q "^\*\*\* Errors\|Semantic errors\|Parse Error" /tmp/sany.$$; then
    echo "SANY errors in $f"; grep -A8 "Errors\|Parse Error" /tmp/sany.$$ | head -30; fail=1
  fi
done
rm -f /tmp/sany.$$
[ $fail = 0 ] || exit 1
echo "[setup] model-checking cache"
python3 - <<'PY'
import os, sys, importlib
sys.path.insert(0, os.getcwd())
from vlib import core
for name in sorted(os.listdir("checks")):
    if not (name.startswith("c") and name.endswith(".py")):
        continue
    mod = importlib.import_module("checks." + name[:-3])
    if hasattr(mod, "mc"):
        ctx = core.Ctx(name[:-3].upper(), "quick", 1, replay="setup")
        try:
            mod.mc(ctx)
            print("[setup] MC", name[:-3].upper(), {k: v["distinct_states"] for k, v in ctx.mc.items()})
        except core.ToolError as e:
            print("[setup] MC failed for", name, e)
            sys.exit(1)
PY
echo "[setup] done"
