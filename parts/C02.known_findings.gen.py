#!/usr/bin/env python3
"""Generates /verif/known_findings/C02.json (run from /verif: python3 parts/C02.known_findings.gen.py).

Every entry is ONE root cause in falcon's MIPS / PPC lifter.  A rejection of Trace_C02 carries
  x = r['expected'] = {arch, mn (mnemonic decoded by the specification), diff (names of the differing
      components: 'r<n>', 'hi', 'lo', 'lr', 'ctr', 'ca', 'cr<f>lt|gt|eq|so', 'mem', 'pages', 'npc', 'npcw',
      'outcome'), tags (state classes), d (decoded fields; MIPS: one record per word with rs/rt/rd/sa/dst),
      exp (expected values)}
and e = the recorded event.  An entry matches iff
  (1) its own root cause is active for this instance (architecture, mnemonic, operand form, state class), and
  (2) every differing component is one that the root causes active for this instance explain
      (several causes can hit the same instance, e.g. `rlwinm.`: wrong mask AND no CR0 update; a
      jalr with an explicit rd whose delay slot writes rs).
A component outside that union - say lwl corrupting memory, or jr changing a register - matches no
entry and is reported as a VIOLATION.
"""
import json
import os

MIPS = "a in ('mips', 'mipsel')"
R = "'r%d'"

# (id, what, manual, active, allowed)   -- expressions over a, mn, t, D, f, e
CAUSES = [
    # ------------------------------------------------------------------------------------------ MIPS
    ("C02-mips-jump-register-read-after-delay-slot",
     "MIPS jr / jalr read the jump register AFTER the delay slot (the indirect branch is lifted at pseudo-address pc+1 behind the "
     "delay slot): component next pc when the delay slot writes rs.  Not repairable with falcon's tests unedited: its own `jr` and "
     "`jalr` tests expect the post-delay-slot value (jr $a0, $a0 = 0xf, delay slot addiu $a0, $a0, 1, expected at 0x10)",
     "MIPS32 vol. II, JR/JALR: 'I: temp <- GPR[rs] ... I+1: PC <- temp': the register is read by the jump itself, only the transfer is delayed",
     MIPS + " and mn in ('jr', 'jalr') and 'ds-writes-rs' in t",
     "{'npc'}"),
    ("C02-mips-link-and-condition-after-delay-slot",
     "MIPS jal/bal/bgezal/bltzal/jalr write the link register, and bgezal/bltzal test rs, AFTER the delay slot: components link register "
     "(delay slot writes it), results of a delay slot that reads the link register, next pc of bgezal/bltzal whose delay slot writes rs "
     "(repair: parts/C02.fix-13.patch)",
     "MIPS32 vol. II, JAL/JALR/BGEZAL/BLTZAL: 'I: GPR[31] <- PC + 8; condition <- GPR[rs] >= 0 ... I+1: if condition then PC <- target': "
     "link and condition belong to the branch instruction, the delay slot executes afterwards",
     MIPS + " and mn in ('jalr', 'jal', 'bgezal', 'bltzal') and (len(t & {'ds-writes-link', 'ds-reads-link'}) > 0 or (mn in ('bgezal', 'bltzal') and 'ds-writes-rs' in t))",
     "(({'npc'} if ('ds-writes-rs' in t and mn in ('bgezal', 'bltzal')) else set())"
     " | ({" + R + " % (f[0]['rd'] if mn == 'jalr' else 31)} if 'ds-writes-link' in t else set())"
     " | (({" + R + " % f[1]['dst']}"
     "     | ({'hi', 'lo'} if f[1]['mn'] in ('mult', 'multu', 'div', 'divu', 'madd', 'maddu', 'msub', 'msubu') else set())"
     "     | ({'mem'} if f[1]['mn'] in ('sb', 'sh', 'sw', 'swl', 'swr', 'sc') else set())) if 'ds-reads-link' in t else set()))"),
    ("C02-mips-jalr-explicit-rd",
     "MIPS jalr rd, rs with rd != $ra: the lifter takes capstone operand 0 (rd) as the jump target and always links $ra: "
     "components next pc, $ra (spurious write), rd (link missing)",
     "MIPS32 vol. II, JALR: 'temp <- GPR[rs]; GPR[rd] <- PC + 8; PC <- temp'",
     MIPS + " and mn == 'jalr' and f[0]['rd'] != 31",
     "{'npc', 'r31', " + R + " % f[0]['rd']}"),
    ("C02-mipsel-lwl-lwr-swl-swr-big-endian-only",
     "MIPSel lwl/lwr/swl/swr are lifted with the big-endian byte selection (one formula for both endiannesses): "
     "component rt (lwl/lwr) / the aligned memory word (swl/swr)",
     "MIPS32 vol. II, LWL/LWR/SWL/SWR, figures 'Bytes loaded/stored ... little-endian byte ordering': the byte lanes are "
     "selected by vAddr[1:0] XOR BigEndianCPU^2",
     "a == 'mipsel' and mn in ('lwl', 'lwr', 'swl', 'swr')",
     "({" + R + " % f[0]['rt']} if mn in ('lwl', 'lwr') else {'mem'})"),
    ("C02-mips-lwr-swr-offset3",
     "MIPS (big endian) lwr/swr at an address with vAddr mod 4 = 3: the lifter's mask (1 << 0) - 1 = 0 transfers no byte, "
     "the manual transfers the whole word: component rt (lwr) / memory word (swr)",
     "MIPS32 vol. II, LWR/SWR big-endian table: vAddr[1:0] = 3 loads/stores all four bytes",
     "a == 'mips' and mn in ('lwr', 'swr') and 'k3' in t",
     "({" + R + " % f[0]['rt']} if mn == 'lwr' else {'mem'})"),
    ("C02-mips-lwl-lwr-reads-scalar-zero",
     "MIPS lwl/lwr with rt = $zero read the IL scalar '$zero' (merge with the old register value uses dst.into() instead of the "
     "constant 0): the executor fails with ExecutorScalar where the architecture executes a no-op load: component outcome",
     "MIPS32 vol. II: GPR 0 always reads as zero and writes to it are discarded; LWL/LWR with rt = 0 raise no exception",
     MIPS + " and mn in ('lwl', 'lwr') and 'dst0' in t and e['zs'] == [] and e['out'].get('e') == 'ExecutorScalar'",
     "{'outcome'}"),
    ("C02-mips-variable-shift-amount-not-masked",
     "MIPS sllv/srlv/srav shift by the whole register rs instead of rs[4:0]: for rs >= 32 the result is 0 / the sign fill: component rd",
     "MIPS32 vol. II, SLLV/SRLV/SRAV: 's <- GPR[rs][4..0]'",
     MIPS + " and mn in ('sllv', 'srlv', 'srav') and 'sh>=32' in t",
     "{" + R + " % f[0]['rd']}"),
    # ------------------------------------------------------------------------------------------ PPC
    ("C02-ppc-record-forms-ignore-cr0",
     "PPC add./subf./addze./srawi./rlwinm. (Rc = 1) are lifted like the non-record form: CR0 lt/gt/eq are not updated",
     "PowerPC UISA / Power ISA Book I 3.3.8: 'if Rc = 1 ... CR0 <- LT, GT, EQ, SO' from the result compared with zero",
     "a == 'ppc' and mn in ('add', 'subf', 'addze', 'srawi', 'rlwinm') and 'rc' in t",
     "{'cr0lt', 'cr0gt', 'cr0eq'}"),
    ("C02-ppc-lis-duplicates-immediate",
     "PPC lis rt, imm (addis with RA = 0) yields (imm & 0xffff) | (imm << 16) instead of imm << 16: component rt",
     "Power ISA Book I, addis: 'RT <- (RA|0) + (SI || 0x0000)'",
     "a == 'ppc' and mn == 'addis' and 'ra0' in t",
     "{" + R + " % f[0]['rt']}"),
    ("C02-ppc-addze-carry-out",
     "PPC addze reads XER[CA] but never writes the carry out: component ca",
     "Power ISA Book I, addze: 'Special Registers Altered: CA'",
     "a == 'ppc' and mn == 'addze'",
     "{'ca'}"),
    ("C02-ppc-srawi-carry",
     "PPC srawi never sets XER[CA] (the scalar 'carry' that addze reads): component ca",
     "Power ISA Book I, srawi: 'CA is set to 1 if the (RS) is negative and any 1-bits are shifted out; otherwise CA is set to 0'",
     "a == 'ppc' and mn == 'srawi'",
     "{'ca'}"),
    ("C02-ppc-rlwinm-mask-off-by-one",
     "PPC rlwinm / slwi: MASK(mb, me) is one bit short and shifted one bit too far for mb <= me, and clears one bit too many in the "
     "wrap-around case mb > me + 1 (only mb = me + 1 is right): component ra",
     "Power ISA Book I 3.3.12 MASK(x, y): 'ones from bit x through bit y, zeros elsewhere', wrapping around when x > y",
     "a == 'ppc' and mn == 'rlwinm' and f[0]['mb'] != f[0]['me'] + 1",
     "{" + R + " % f[0]['ra']}"),
    ("C02-ppc-compare-cr-field",
     "PPC cmpwi / cmplwi (CR field 1..7): eq is computed with the gt formula, and the three flags are assigned the 4-bit constants "
     "0b0100 / 0b0010 / 0b0001 although the scalars crN-lt/gt/eq are 1 bit wide: components crN-lt, crN-gt, crN-eq (value and width)",
     "Power ISA Book I 3.3.10 cmpi/cmpli: 'c <- 0b100 | 0b010 | 0b001 for a < b, a > b, a = b; CR[4xBF..4xBF+3] <- c || XER[SO]'",
     "a == 'ppc' and mn in ('cmpwi', 'cmplwi') and f[0]['crf'] != 0",
     "{'cr%d%s' % (f[0]['crf'], s) for s in ('lt', 'gt', 'eq')}"),
    ("C02-ppc-compare-cr0-operands",
     "PPC cmpwi / cmplwi on CR field 0 (capstone prints two operands: 'cmpwi r7, 0x13'): the lifter still reads operand 0 as the CR "
     "field and operand 1 as the register, so the word is either refused or - when the immediate happens to be the number of a "
     "known register - lifted to IL that reads unrelated scalars: components outcome (ExecutorScalar) / cr0-lt, cr0-gt, cr0-eq not written",
     "Power ISA Book I 3.3.10 cmpi/cmpli with BF = 0 set CR0",
     "a == 'ppc' and mn in ('cmpwi', 'cmplwi') and f[0]['crf'] == 0",
     "{'outcome', 'cr0lt', 'cr0gt', 'cr0eq'}"),
    ("C02-ppc-mtlr-mtctr",
     "PPC mtlr rS is dispatched to the mflr semantics (rS <- LR) and mtctr rS assigns the constant 0 to rS (operand 1 of a one-operand "
     "instruction read as an immediate): components lr / ctr (not written) and rS (overwritten)",
     "Power ISA Book I 3.3.17 mtspr: 'SPR(n) <- (RS)'",
     "a == 'ppc' and mn == 'mtspr' and len(t & {'spr8', 'spr9'}) > 0",
     "{'lr' if 'spr8' in t else 'ctr', " + R + " % f[0]['rt']}"),
    ("C02-ppc-blr-is-a-nop",
     "PPC blr is lifted as a nop that falls through to pc + 4: component next pc",
     "Power ISA Book I 2.4 bclr: 'if ctr_ok & cond_ok then NIA <- LR[0:29] || 0b00'; BO = 0b10100 branches always",
     "a == 'ppc' and mn == 'bclr' and 'bo20' in t and 'lk' not in t",
     "{'npc'}"),
    ("C02-ppc-bctr-low-bits",
     "PPC bctr branches to CTR without clearing the two low-order bits: component next pc when CTR mod 4 != 0",
     "Power ISA Book I 2.4 bcctr: 'NIA <- CTR[0:29] || 0b00'",
     "a == 'ppc' and mn == 'bcctr' and 'ctr-unaligned' in t",
     "{'npc'}"),
    ("C02-ppc-bcl-forms-are-nops",
     "PPC bcl forms that capstone prints as bdnzl (BO = 16, 17, 20 with LK = 1) are lifted as nops: CTR is not decremented, "
     "LR is not set, the branch is never taken: components ctr, lr, next pc",
     "Power ISA Book I 2.4 bc: 'if ~BO[2] then CTR <- CTR - 1 ... if LK then LR <- CIA + 4'",
     "a == 'ppc' and mn == 'bc' and 'lk' in t",
     "{'ctr', 'lr', 'npc'}"),
]

# id -> commit of the repair in /repo.  The lead adds an entry here when a fix patch has been applied and re-runs
# this script: the entry becomes status "fixed" (suppresses nothing) and its components leave the union below.
FIXED = {
    "C02-mips-jalr-explicit-rd": "8ff5f00",
    "C02-mipsel-lwl-lwr-swl-swr-big-endian-only": "d47ea74",
    "C02-mips-lwr-swr-offset3": "d47ea74",
    "C02-mips-lwl-lwr-reads-scalar-zero": "d47ea74",
    "C02-mips-variable-shift-amount-not-masked": "acc9435",
    "C02-ppc-lis-duplicates-immediate": "ac21dd5",
    "C02-ppc-addze-carry-out": "fb9334e",
    "C02-ppc-srawi-carry": "fb9334e",
    "C02-ppc-rlwinm-mask-off-by-one": "b6ddd33",
    "C02-ppc-compare-cr-field": "6634fbf",
    "C02-ppc-compare-cr0-operands": "6634fbf",
    "C02-ppc-mtlr-mtctr": "125a977",
}

live = [c for c in CAUSES if c[0] not in FIXED]
union = " | ".join("((%s) if (%s) else set())" % (allowed, active) for (_, _, _, active, allowed) in live) or "set()"
findings = []
for (cid, what, manual, active, allowed) in CAUSES:
    match = ("(lambda x, e: (lambda a, mn, t, D, f: len(D) > 0 and (%s) and D <= (%s))"
             "(x['arch'], x['mn'], set(x['tags']), set(x['diff']), x['d']))(r['expected'], e)") % (active, union)
    entry = {
        "id": cid, "property": "C02", "status": "fixed" if cid in FIXED else "known", "what": what, "manual": manual,
        "signature": {"active_when": active, "components": allowed},
        "replay": "known_findings/C02.replays/%s.json" % cid,
        "match": match,
    }
    if cid in FIXED:
        entry["commit"] = FIXED[cid]
        entry["record"] = "fixed: property=C02 %s %s" % (FIXED[cid], what)
    findings.append(entry)

out = {
    "_comment": "Generated by parts/C02.known_findings.gen.py - edit the generator, not this file. Genuine defects of falcon's "
                "MIPS / PPC lifters found by ./check C02. status=known: recorded, not repaired (or repair proposed as "
                "parts/C02.fix-<n>.patch); the check prints KNOWN-FINDING for rejections matching `match` and still reports any "
                "other violation. Each entry is one root cause; `signature` shows its own activation condition and the components "
                "it explains, `match` additionally requires that EVERY differing component is explained by the root causes active "
                "for that instance.",
    "findings": findings,
}
path = os.path.join(os.path.dirname(os.path.dirname(os.path.abspath(__file__))), "known_findings", "C02.json")
with open(path, "w") as f:
    json.dump(out, f, indent=1)
print("wrote %s (%d entries)" % (path, len(findings)))
