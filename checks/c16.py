"""C16 - backing memory is a permissioned byte map under overlapping writes.

Spec:    spec/Backing.tla (design level: address -> [byte, permissions, region]).
MC:      spec/mc/MC_Backing.tla: every small history of region writes in lock-step with the
         implementation-shaped spec/BackingImpl.tla (the BTreeMap of sections and the five-way
         overlap split transcribed); refinement, read agreement, and the exact extent of the known
         empty-write defect are invariants; every history is printed as one JSON line.
Binding: (a) specification -> implementation: the recorder c16 replays every TLC-generated history
         into memory::backing::Memory (both endiannesses; near 0, across 2^32 and 2^63) and reads
         everything over the touched window +- 8; (b) implementation -> specification: random
         histories of up to 60 writes of length 0..40 (overlapping, nested, adjacent, identical
         start, empty) and set32, then all reads.  Trace_C16 carries the cells and judges.
"""
import hashlib
import json
import os
import re
import time

from vlib import core

LEVEL = "model_checking"
TRACE = "Trace_C16"
_JTO = "-Xss1g -DTLA-Library=%s -Dtlc2.tool.queue.IStateQueue=StateDeque -XX:ParallelGCThreads=2 " % core.SPEC
TLC_ENV = {"JAVA_TOOL_OPTIONS": _JTO + "-XX:TieredStopAtLevel=1"}
TLC_ENV_LONG = {"JAVA_TOOL_OPTIONS": _JTO + "-XX:CICompilerCount=2"}
_HIST = re.compile(r'^<<"HIST", "(.*)">>\s*$')


# ------------------------------------------------------------------------------------------------
# model checking of Backing / BackingImpl + behaviour generation
# ------------------------------------------------------------------------------------------------
def _spec_hash(names):
    h = hashlib.sha1()
    for n in names:
        with open(os.path.join(core.SPEC, n), "rb") as f:
            h.update(n.encode() + b"\0" + f.read())
    return h.hexdigest()[:16]


def mc_histories(ctx, cfg, key, want_hist=True):
    """Model-check MC_Backing with `cfg` (a failure is a tool error); returns (path of the ndjson file
    of printed histories, count).  Independent of /repo: the quick tier re-uses an identical run."""
    hsh = _spec_hash(["Backing.tla", "BackingImpl.tla", "mc/MC_Backing.tla", "mc/" + cfg])
    cdir = os.path.join(core.WORK, "mc_cache")
    os.makedirs(cdir, exist_ok=True)
    base = os.path.join(cdir, "C16-%s-%s" % (cfg.replace(".cfg", ""), hsh))
    if ctx.quick and os.path.exists(base + ".json") and os.path.exists(base + ".ndjson") \
            and not os.environ.get("VERIF_NO_MC_CACHE"):
        with open(base + ".json") as f:
            st = json.load(f)
        st["cached"] = True
    else:
        r = core.run_tlc(os.path.join(core.SPEC, "mc", "MC_Backing.tla"), os.path.join(core.SPEC, "mc", cfg),
                         workers=min(core.NCPU, 16), heap="6g", timeout=1800, coverage=False, depth_first=False)
        if not r.ok:
            raise core.ToolError("model checking of MC_Backing/%s failed:\n%s" % (cfg, core.tlc_error_summary(r)))
        n = 0
        with open(base + ".ndjson.tmp", "w") as f:
            for line in r.prints:
                m = _HIST.match(line)
                if m:
                    s = core._unescape_tla_string(m.group(1))
                    json.loads(s)
                    f.write(s + "\n")
                    n += 1
        if want_hist and n != r.distinct:
            raise core.ToolError("MC_Backing/%s printed %d histories for %d states" % (cfg, n, r.distinct))
        os.replace(base + ".ndjson.tmp", base + ".ndjson")
        st = {"distinct_states": r.distinct, "states_generated": r.generated, "depth": r.depth,
              "wall_s": round(r.wall, 1), "histories": n}
        with open(base + ".json", "w") as f:
            json.dump(st, f)
    ctx.mc[key] = st
    ctx.states += st["distinct_states"]
    ctx.transitions += st["states_generated"]
    return base + ".ndjson", st["histories"]


def mc(ctx):
    out = [mc_histories(ctx, "MC_Backing_2.cfg", "MC_Backing as-is, <=2 writes + set32")]
    if not ctx.quick:
        out.append(mc_histories(ctx, "MC_Backing_3.cfg", "MC_Backing as-is, <=3 writes"))
        mc_histories(ctx, "MC_Backing_3fixed.cfg", "MC_Backing with the proposed repairs, <=3 writes", want_hist=False)
    return out


# ------------------------------------------------------------------------------------------------
# a recorder that dies
# ------------------------------------------------------------------------------------------------
def redrive(ctx, binname, inputs, tag):
    """Re-drive the inputs of one session (replay mode flushes after every event).  If the recorder
    dies, the call that never returned is appended with res = {"abort": ..}: the trace specification
    rejects it like any other observation (a call that does not return is not an allowed answer)."""
    inp = os.path.join(ctx.work, tag + "_in.ndjson")
    with open(inp, "w") as f:
        for e in inputs:
            f.write(json.dumps(e) + "\n")
    part = ctx.record(binname, ["--mode", "replay", "--in", inp], tag + ".ndjson", allow_fail=True)
    evs = []
    with open(part) as f:
        for line in f:
            try:
                evs.append(json.loads(line))
            except ValueError:
                break
    died = len(evs) < len(inputs)
    if died:
        bad = dict(inputs[len(evs)])
        abort = {"abort": "the recorder process died inside this call (stack overflow / abort)"}
        bad["res"] = [abort] * bad["n"] if bad["ev"] == "scan" else abort
        evs.append(bad)
        with open(part, "w") as f:
            for e in evs:
                f.write(json.dumps(e) + "\n")
        core.log("[%s] recorder died: call #%d (%s) of the session never returned" % (ctx.prop, len(evs), bad["ev"]))
    elif ctx.last_record_rc != 0:
        raise core.ToolError("recorder %s failed (%d): %s" % (binname, ctx.last_record_rc, ctx.last_record_stderr[-2000:]))
    return part, died


def crashed_sessions(ctx, binname, paths):
    """A stack overflow or abort inside falcon kills the recorder (not catchable in-process).  The
    recorder parks the inputs of the session it is driving in `<out>.cur`; if that file is still
    there after the run, that session is re-driven on its own (see redrive) and judged."""
    out = []
    for p in paths:
        if not os.path.exists(p) or (os.path.getsize(p) == 0 and not os.path.exists(p + ".cur")):
            raise core.ToolError("recorder %s produced nothing: %s" % (binname, p))
        if not os.path.exists(p + ".cur"):
            continue
        with open(p + ".cur") as f:
            inputs = json.load(f)
        # the session that was being driven may be partly in the output (possibly with a torn last
        # line): cut the output at the last `begin` (at worst one complete session is not judged)
        with open(p) as f:
            lines = f.readlines()
        last = max([i for i, l in enumerate(lines) if '"ev":"begin"' in l], default=0)
        with open(p, "w") as f:
            f.writelines(lines[:last])
        part, died = redrive(ctx, binname, inputs, "crash%d" % len(out))
        if not died:
            raise core.ToolError("recorder %s died while driving a session that replays cleanly: %s" % (binname, p + ".cur"))
        out.append(part)
    return out


# ------------------------------------------------------------------------------------------------
# trace validation
# ------------------------------------------------------------------------------------------------
def _split(rj):
    """A rejected `scan` is n queries at consecutive addresses: one rejection per disagreeing
    address, in the shape of the single-query events, so that every address is classified on its
    own (known-finding predicates are per address)."""
    e = rj.get("event")
    if not e or e.get("ev") != "scan":
        return [rj]
    out = []
    for d in rj["expected"]:
        i = d["i"]
        ev = {"ev": e["what"], "a": [e["a"][0], e["a"][1] + i], "res": e["res"][i]}
        if "bits" in e:
            ev["bits"] = e["bits"]
        out.append({"line": rj["line"], "index": i, "why": e["what"],
                    "expected": {"allowed": d["allowed"], "cls": d["cls"]}, "event": ev, "trace": rj["trace"]})
    if not out:
        raise core.ToolError("rejected scan without a disagreeing address: %s" % json.dumps(rj)[:400])
    return out


def _attach_sessions(ctx, rejects):
    """Sessions (inputs up to the rejected line) make a rejection replayable: attached to what no
    known finding matches and to the first rejection of every known finding."""
    known = ctx._known()
    seen, cache = set(), {}
    for rj in rejects:
        hit = next((k["id"] for k in known if ctx._matches(k, rj)), None)
        if hit is not None and hit in seen:
            continue
        seen.add(hit)
        p = os.path.join(core.ROOT, rj["trace"])
        if p not in cache:
            with open(p) as f:
                cache[p] = [l for l in f if l.strip()]
        lines = cache[p]
        i = rj["line"] - 1
        b = i
        while b > 0 and '"ev":"begin"' not in lines[b]:
            b -= 1
        rj["session"] = [json.loads(l) for l in lines[b:i + 1]]


def _collect(ctx, results):
    rejects = []
    for r in results:
        for rj in r.rejects:
            rejects += _split(rj)
    _attach_sessions(ctx, rejects)
    for rj in rejects:
        ctx.reject(rj)
    return rejects


def validate(ctx, jobs):
    """jobs: [(trace path, number of shards)]; all shards are validated in one parallel batch"""
    shards = []
    paths = [p for p, _ in jobs]
    for p, nshards in jobs:
        shards += ctx.shard(p, nshards, by_session=True)
    results = ctx.tlc_trace_many(TRACE, shards, parallel=min(core.NCPU, 16), env=TLC_ENV if ctx.quick else TLC_ENV_LONG,
                                 timeout=1500, heap="3g")
    _collect(ctx, results)
    kinds = ctx.extra.setdefault("events_by_kind", {})
    reads = 0
    for p in paths:
        with open(p) as f:
            for line in f:
                e = json.loads(line)
                k = e["ev"] + (":" + e["what"] if e["ev"] == "scan" else "")
                kinds[k] = kinds.get(k, 0) + 1
                if e["ev"] == "begin":
                    ctx.traces += 1
                elif e["ev"] == "scan":
                    reads += e["n"]
                elif e["ev"] in ("get8", "perm", "get", "get32"):
                    reads += 1
    ctx.extra["reads_judged"] = ctx.extra.get("reads_judged", 0) + reads


def _sample(ctx, path, skip_sessions):
    cur, n = [], 0
    with open(path) as f:
        for line in f:
            if '"ev":"begin"' in line:
                if cur and n > skip_sessions:
                    break
                cur, n = [], n + 1
            cur.append(json.loads(line))
    ctx.samples.append(cur[:30])


def run(ctx):
    ctx.build(["c16"])
    t0 = time.time()
    hists = mc(ctx)
    t1 = time.time()
    q = ctx.quick
    may_die = {"allow_fail": True}          # a dying recorder is an observation: see crashed_sessions
    # <= 2 operations: every history in both endiannesses; <= 3 writes (thorough): endianness alternates
    # with the history index; placements rotate with the history index
    jobs = [("c16", ["--mode", "gen", "--in", h, "--endian", "both" if i == 0 else "alternate"], "gen%d.ndjson" % i, may_die)
            for i, (h, _) in enumerate(hists)]
    nrand, writes = (900, 60) if q else (4000, 60)
    per = 100 if q else 250
    for i in range(nrand // per):
        jobs.append(("c16", ["--mode", "random", "--n", per, "--writes", writes, "--stream", i], "rand%02d.ndjson" % i, may_die))
    paths = ctx.record_many(jobs, parallel=8)
    crashes = crashed_sessions(ctx, "c16", paths)
    gens, rands = paths[:len(hists)], paths[len(hists):]
    t2 = time.time()
    validate(ctx, [(p, 2 if q else 32) for p in gens] + [(p, 1 if q else 2) for p in rands] + [(p, 1) for p in crashes])
    core.log("[%s] mc %.1fs, recording %.1fs, trace validation %.1fs" % (ctx.prop, t1 - t0, t2 - t1, time.time() - t2))
    _sample(ctx, gens[0], 700)
    _sample(ctx, rands[0], 1)
    ctx.extra["exhaustive"] = True
    ctx.extra["exhaustive_scope"] = (
        "every history of <= %d region writes set_memory(start 0..6, length 0..4) (empty, nested, adjacent, identical-start "
        "regions included)%s, replayed in both endiannesses (3-write histories: alternating) with the window at address 8 / across 2^32 / across 2^63 "
        "(rotating), each followed by get8, permissions, get(16/32/64), get32 at every address of the window +- 8 and sections()"
        % (2 if q else 3, "; <= 2 operations including set32 within a region"))
    ctx.extra["generated_histories"] = sum(n for _, n in hists)
    ctx.extra["random_sessions"] = nrand
    ctx.extra["random_max_writes"] = writes
    ctx.assumptions += [
        "TLC and the CommunityModules Json/IOUtils overrides",
        "harness projection of values / addresses to JSON; addresses are [base, offset] pairs over the bases 0, 2^32-4096, "
        "2^63-4096 (Backing!Key preserves order and adjacency)",
        "32-bit accesses that do not lie within one region, get() with a width that is not a positive byte multiple, and "
        "addresses wrapping at 2^64 are outside the statement (accepted either way / not generated)",
    ]


def replay(ctx, path):
    ctx.build(["c16"])
    with open(path) as f:
        rep = json.load(f)
    rj = rep["rejection"]
    sess = rj.get("session") or [{"ev": "begin", "endian": "little"}, rj["event"]]
    out, _ = redrive(ctx, "c16", sess, "replay")
    r = ctx.tlc_trace(TRACE, out, env=TLC_ENV)
    ctx.traces += 1
    _collect(ctx, [r])


# ------------------------------------------------------------------------------------------------
# binding self-test
# ------------------------------------------------------------------------------------------------
def _corrupt(res, what):
    """change one recorded answer into a different well-formed answer"""
    ok = res.get("ok")
    if what in ("get8", "perm"):
        if not isinstance(ok, int):
            return False
        res["ok"] = 9 if ok == -1 else -1 if ok % 2 else ok ^ 1
        return True
    if not isinstance(ok, dict):
        return False
    if ok.get("k") == "none":
        return False                                # a get32 `none` may be one of two allowed answers
    ok["v"][len(ok["v"]) // 2] ^= 1
    return True


def selftest(ctx):
    """Corrupt recorded answers (single queries, one address inside scans, a section byte, a section's
    permissions), drop the last write of generated histories, and expect exactly those lines to be
    rejected on top of the rejections of the unmodified trace."""
    ctx.build(["c16"])
    hist, _ = mc_histories(ctx, "MC_Backing_2.cfg", "MC_Backing as-is, <=2 writes + set32")
    small = os.path.join(ctx.work, "hist_small.ndjson")
    with open(hist) as f, open(small, "w") as g:
        for i, line in enumerate(f):
            if i % 5 == 0:
                g.write(line)
    p1 = ctx.record("c16", ["--mode", "gen", "--in", small], "st_gen.ndjson")
    p2 = ctx.record("c16", ["--mode", "random", "--n", 40, "--writes", 30], "st_rand.ndjson")
    evs = ctx.read_ndjson(p1) + ctx.read_ndjson(p2)
    base_path = os.path.join(ctx.work, "st_base.ndjson")
    with open(base_path, "w") as f:
        for e in evs:
            f.write(json.dumps(e) + "\n")
    r0 = ctx.tlc_trace(TRACE, base_path, env=TLC_ENV)
    rej0 = {rj["line"] for rj in r0.rejects}
    skipped0 = set()
    for rj in r0.rejects:                            # a rejected mutating event skips its session
        if evs[rj["line"] - 1]["ev"] in ("set_memory", "set32"):
            j = rj["line"]
            while j < len(evs) and evs[j]["ev"] != "begin":
                skipped0.add(j + 1)
                j += 1
    bad = set()
    for i, e in enumerate(evs):
        ln = i + 1
        if ln in rej0 or ln in skipped0:
            continue
        k = e["ev"]
        hit = False
        if k in ("get8", "perm", "get", "get32") and i % 2 == 0:
            hit = _corrupt(e["res"], k)
        elif k == "scan" and i % 3 == 0:
            hit = _corrupt(e["res"][(i // 3) % len(e["res"])], e["what"])
        elif k == "sections" and i % 2 == 0 and isinstance(e["res"].get("ok"), list):
            secs = [s for s in e["res"]["ok"] if s["d"]]
            if secs:
                s = secs[(i // 2) % len(secs)]
                if i % 4 == 0:
                    s["d"][0] ^= 1                   # a stored byte
                else:
                    s["p"] = (s["p"] + 1) % 8        # a section's permissions
                hit = True
        if hit:
            bad.add(ln)
    mut_path = os.path.join(ctx.work, "st_mut.ndjson")
    with open(mut_path, "w") as f:
        for e in evs:
            f.write(json.dumps(e) + "\n")
    r1 = ctx.tlc_trace(TRACE, mut_path, env=TLC_ENV)
    rej1 = {rj["line"] for rj in r1.rejects}
    ok1 = len(bad) > 30 and rej1 == (rej0 | bad)
    core.log("selftest C16 corrupt: %d corrupted, baseline %d, rejected %d, unexpected %d, missed %d" % (
        len(bad), len(rej0), len(rej1), len(rej1 - (rej0 | bad)), len((rej0 | bad) - rej1)))
    # dropped event: the last non-empty write of a generated history
    evs = ctx.read_ndjson(p1)
    sessions, cur = [], []
    for e in evs:
        if e["ev"] == "begin" and cur:
            sessions.append(cur)
            cur = []
        cur.append(e)
    sessions.append(cur)
    out, spans = [], []
    for si, s in enumerate(sessions):
        ws = [i for i, e in enumerate(s) if e["ev"] == "set_memory"]
        drop = None
        if si % 2 == 0 and ws and s[ws[-1]]["d"] and ws[-1] == max(i for i, e in enumerate(s) if e["ev"] in ("set_memory", "set32")):
            drop = ws[-1]
            spans.append((len(out), len(out) + len(s) - 1))
        out += [e for i, e in enumerate(s) if i != drop]
    drop_path = os.path.join(ctx.work, "st_drop.ndjson")
    with open(drop_path, "w") as f:
        for e in out:
            f.write(json.dumps(e) + "\n")
    r2 = ctx.tlc_trace(TRACE, drop_path, env=TLC_ENV)
    lines2 = {rj["line"] for rj in r2.rejects}
    ok2 = len(spans) > 30
    for (a, b) in spans:      # the get8 scan and sections() of a session that lost its last write are rejected
        kinds = {(out[ln - 1]["ev"], out[ln - 1].get("what")) for ln in lines2 if a < ln <= b + 1}
        ok2 = ok2 and ("scan", "get8") in kinds and ("sections", None) in kinds
    core.log("selftest C16 drop: %d sessions without their last write, all detected: %s" % (len(spans), ok2))
    return ok1 and ok2
