"""C06 - function recovery reproduces sequential machine-code execution.

MC:      MC_Recover - a model of translate_function_extended (work list, windows of W bytes, per-address sharing
         of instructions between overlapping blocks, chain / manual / successor edges with duplicate suppression,
         entry, merge) is checked against the architecture's successor relation for ALL programs of an abstract
         ISA with 1..3-byte instructions in small scope: every reachable instruction exactly once, no dangling edge,
         entry = function address, native successors = architecture's, two-way conditionals keep two guarded edges.
Binding: recorder c06 generates MIPS / MIPSel (and PPC: b / bl / bctr + manual edges) machine code from templates (straight runs longer than a 64-byte
         window, loops, forward / backward / overlapping conditional branches, branches at offsets 56 / 60 of a window,
         targets at the last word of a window, b / j / jal, jr $ra, jr with manual edges, function address in the
         middle of the code), lifts it with the real translate_function_extended and logs the projected function
         (`begin`), then executes it with the real Driver from generated states (`run`).  Trace_C06 decodes the words
         itself (Mips.tla): structure against Recover!DReach, runs against the nPC machine stepped instruction by
         instruction.
"""
import collections
import json
import os

from vlib import core

LEVEL = "model_checking"
ARCHS = ["mips", "mipsel", "ppc"]
TRACE = "Trace_C06"
XTRACE = "Trace_C06X"


def mc(ctx):
    ctx.tlc_mc("MC_Recover", "MC_Recover_4.cfg", key="MC_Recover <= 4 instructions of 1..3 bytes, window 4, <= 2 branches, every entry",
               workers=16, heap="8g")
    ctx.tlc_mc("MC_Recover", "MC_Recover_3m.cfg", key="MC_Recover <= 3 instructions, with one manual edge",
               workers=16, heap="8g")


def _stats(results):
    tot = collections.Counter()
    for r in results:
        for p in r.prints:
            if p.startswith('<<"STATS", "'):
                body = p[len('<<"STATS", "'):p.rindex('">>')]
                tot.update(json.loads(core._unescape_tla_string(body)))
    return tot


def _attach_sessions(rs):
    """a rejected `run` needs its program: attach the session's begin event to the rejection"""
    for r in rs:
        cache = {}
        for rj in r.rejects:
            tr = rj.get("trace")
            if not tr or "event" not in rj:
                continue
            if tr not in cache:
                with open(os.path.join(core.ROOT, tr)) as f:
                    cache[tr] = [l for l in f if l.strip()]
            if rj["event"].get("ev") == "run":
                for l in reversed(cache[tr][:rj["line"] - 1]):
                    if '"ev":"begin"' in l:
                        rj["begin"] = json.loads(l)
                        break


def features(paths):
    """generator-side coverage (informational): which template features the programs had"""
    c = collections.Counter()
    for p in paths:
        with open(p) as f:
            for line in f:
                if '"ev":"begin"' not in line:
                    continue
                e = json.loads(line)
                n, ent, t = len(e["words"]), e["entry"], e["tmpl"]
                c["programs"] += 1
                c["longer_than_one_window"] += n - ent > 16
                c["longer_than_two_windows"] += n - ent > 32
                c["entry_in_the_middle"] += ent > 0
                c["manual_edges"] += len(e["manual"]) > 0
                c["straight_line"] += t.startswith("straight")
                brs = [x for x in t.split() if "@" in x]
                pos = [int(x.split("@")[1].split("-")[0]) for x in brs]
                tg = [int(x.split(">")[1]) for x in brs if ">" in x and x.split(">")[1].isdigit()]
                c["branch_at_window_offset_56"] += any(q - ent == 14 for q in pos)
                c["branch_at_window_offset_60"] += any(q - ent == 15 for q in pos)
                c["target_last_word_of_window"] += any(q - ent == 15 for q in tg)
                c["target_first_word_of_next_window"] += any(q - ent == 16 for q in tg)
                c["backward_branch"] += any(b < a for a, b in zip(pos, tg))
                c["jal"] += "jal@" in t
                c["j"] += " j@" in " " + t
                c["lift_ok"] += "ok" in e["lift"]
    return dict(c)


def validate(ctx, paths, nshards, parallel=None):
    shards = []
    for p in paths:
        shards += ctx.shard(p, nshards, by_session=True)
    rs = ctx.tlc_trace_many(TRACE, shards, timeout=1700, parallel=parallel)
    _attach_sessions(rs)
    ctx.add_rejects(rs)
    return _stats(rs)


def run_x86(ctx):
    """x86-64 / x86 / AArch64 (both data endiannesses) part of the structure clause (variable-length instructions cut
    by translation windows; fixed-width instructions without delay slots, some of which lift to no IL instruction):
    programs laid out from a table of encodings of known length and kind, recovered function projected to native
    offsets, judged by Trace_C06X against Recover.tla's reachability / successor relation."""
    q = ctx.quick
    n, parts = (300, 2) if q else (8000, 8)
    jobs = [("c06x", ["--mode", "random", "--n", n // parts], "x86-%d.ndjson" % i,
             {"extra_env": {"VERIF_SEED": str(ctx.seed * 1000 + i)}}) for i in range(parts)]
    paths = ctx.record_many(jobs, parallel=8)
    shards = []
    for p in paths:
        shards += ctx.shard(p, 1 if q else 4)
    rs = ctx.tlc_trace_many(XTRACE, shards, timeout=1700, parallel=8 if q else 16)
    ctx.add_rejects(rs)
    progs = sum(1 for p in paths for _ in open(p))
    unspec = sum(1 for r in rs for pr in r.prints if pr.startswith('<<"UNSPEC"'))
    feats = collections.Counter()
    for p in paths:
        for e in ctx.read_ndjson(p):
            feats["programs"] += 1
            feats["arch:" + e["mode"]] += 1
            feats["longer_than_one_window"] += e["size"] - e["entry"] > 64
            feats["entry_in_the_middle"] += e["entry"] > 0
            feats["manual_edges"] += len(e["manual"]) > 0
            feats["instruction_straddles_window"] += any(i["a"] - e["entry"] < 64 < i["a"] - e["entry"] + i["len"] for i in e["prog"])
            feats["lift_ok"] += "ok" in e["res"]
    ctx.traces += progs
    ctx.extra["x86_programs"] = progs
    ctx.extra["x86_unspecified"] = unspec
    ctx.extra["x86_features"] = dict(feats)


def run(ctx):
    import time
    ctx.build(["c06", "c06x"])
    mc(ctx)
    q = ctx.quick
    per_arch = 100 if q else 2000
    parts = 2 if q else 8
    jobs = []
    for a in ARCHS:
        for i in range(parts):
            jobs.append(("c06", ["--mode", "random", "--arch", a, "--n", per_arch // parts, "--runs", 3], "%s-%d.ndjson" % (a, i),
                         {"extra_env": {"VERIF_SEED": str(ctx.seed * 1000 + i)}}))
    t0 = time.time()
    paths = ctx.record_many(jobs, parallel=8)
    t1 = time.time()
    stats = validate(ctx, paths, 2, parallel=12 if q else 16)
    core.log("[C06] recorded %d traces in %.1fs, validated in %.1fs" % (len(paths), t1 - t0, time.time() - t1))
    why = {k[4:]: v for k, v in stats.items() if k.startswith("why:")}
    verdicts = {k: v for k, v in stats.items() if not k.startswith("why:")}
    ctx.traces += sum(v for k, v in verdicts.items() if k.startswith("structure:"))
    ctx.extra["verdicts"] = verdicts
    ctx.extra["programs"] = sum(v for k, v in verdicts.items() if k.startswith("structure:"))
    ctx.extra["runs_judged"] = sum(v for k, v in verdicts.items() if k.startswith("run:ok") or k == "run:reject")
    ctx.extra["unspecified"] = sum(v for k, v in verdicts.items() if k.endswith(":unspec"))
    ctx.extra["unspecified_by_reason"] = why
    ctx.extra["lift_errors_not_judged"] = verdicts.get("structure:lifterr", 0) + verdicts.get("structure:liftpanic", 0)
    ctx.extra["template_features"] = features(paths)
    run_x86(ctx)
    with open(paths[0]) as f:
        for line in f:
            e = json.loads(line)
            if e["ev"] == "begin" and len(ctx.samples) < 1 and len(e["words"]) > 17:
                ctx.samples.append({k: e[k] for k in ("arch", "base", "entry", "asm", "manual", "tmpl", "blocks", "edges", "fentry")})
            elif e["ev"] == "run" and len(ctx.samples) == 1:
                ctx.samples.append({"n": e["n"], "out": e["out"], "pcs": e["pcs"][:24]})
                break
    ctx.assumptions += [
        "TLC 1.8.0 and the CommunityModules Json/IOUtils/Bitwise overrides",
        "Mips.tla is the architecture (C02); programs use only instruction classes on which C02 is clean on this tree, and "
        "delay slots never touch $ra or the jump register, so C02's delay-slot ordering finding cannot show up",
        "the executor implements the IL (C07); the next instruction after an IL Branch is found by the Driver by address",
        "harness projection: IL instruction addresses (Instruction::address), pseudo-addresses (low bits set) dropped by the "
        "specification; the per-instruction yardstick for 'exactly once' is the number of IL instructions that lifting the "
        "word alone attaches to its address",
        "jal is a call: its target belongs to another function, recovery continues behind the delay slot",
        "not judged (unspecified): programs that leave the code, branches in delay slots, instructions outside Mips.tla",
        "x86-64 / x86 / AArch64 part: the description of each program (instruction offsets, lengths, kinds, targets) comes from the "
        "generator's own encoding table, not from the disassembler; only the structure clause is judged there",
    ]


def replay(ctx, path):
    ctx.build(["c06"])
    with open(path) as f:
        rep = json.load(f)
    rj = rep["rejection"]
    ev = rj.get("event", rj)
    inp = ctx.work + "/replay_in.ndjson"
    if ev.get("ev") == "xstruct":
        ctx.build(["c06x"])
        with open(inp, "w") as f:
            f.write(json.dumps(ev) + "\n")
        out = ctx.record("c06x", ["--mode", "replay", "--in", inp], "replay.ndjson")
        r = ctx.tlc_trace(XTRACE, out)
        ctx.traces += 1
        ctx.add_rejects(r)
        return
    with open(inp, "w") as f:
        if ev.get("ev") == "run":
            f.write(json.dumps(rj["begin"]) + "\n")
        f.write(json.dumps(ev) + "\n")
    out = ctx.record("c06", ["--mode", "replay", "--in", inp], "replay.ndjson")
    r = ctx.tlc_trace(TRACE, out)
    _attach_sessions([r])
    ctx.traces += 1
    ctx.add_rejects(r)
    ctx.extra["replay_stats"] = dict(_stats([r]))


def selftest(ctx):
    """Binding self-test: corrupt accepted sessions (drop / duplicate / move an instruction of a block, drop or
    redirect an edge, point an edge at a missing block, change the entry, change one visited address, the next
    address, a final register, a window byte, the outcome; truncate a block list) and expect exactly those
    sessions to be rejected at the corrupted event."""
    ctx.build(["c06"])
    paths = [ctx.record("c06", ["--mode", "random", "--arch", a, "--n", 90, "--runs", 2], "selftest-%s.ndjson" % a) for a in ARCHS]
    evs = []
    for p in paths:
        evs += ctx.read_ndjson(p)
    clean = ctx.work + "/selftest-all.ndjson"
    with open(clean, "w") as f:
        for e in evs:
            f.write(json.dumps(e) + "\n")
    base = ctx.tlc_trace(TRACE, clean)
    # sessions: [begin index, run indices]
    sessions, cur = [], None
    for i, e in enumerate(evs):
        if e["ev"] == "begin":
            cur = [i, []]
            sessions.append(cur)
        else:
            cur[1].append(i)
    rejected_lines = {rj["line"] for rj in base.rejects}
    bad, kinds, j, kind_of = set(), collections.Counter(), 0, {}
    for (b, runs) in sessions:
        e = evs[b]
        if "ok" not in e["lift"] or (b + 1) in rejected_lines or any((r + 1) in rejected_lines for r in runs) or len(runs) < 2:
            continue
        if "manual" in e["tmpl"]:
            continue        # may be `unspec` (manual edge at an unreachable indirect jump): not judged, so not corrupted
        blocks = [x for x in e["blocks"] if len(x["ins"]) >= 2]
        kind = j % 13
        j += 1
        if kind <= 6 and (not blocks or not e["edges"]):
            continue
        r0 = evs[runs[0]]
        target = b
        if kind == 0:
            blocks[0]["ins"].pop(0)                                   # an instruction vanishes
        elif kind == 1:
            blocks[-1]["ins"].append(blocks[-1]["ins"][-1])           # an instruction twice
        elif kind == 2:
            blocks[0]["ins"][0], blocks[0]["ins"][1] = blocks[0]["ins"][1], blocks[0]["ins"][0]
            if blocks[0]["ins"][0] == blocks[0]["ins"][1]:
                continue
        elif kind == 3:
            # an edge between two native instructions vanishes (an edge inside a multi-block instruction, e.g. the
            # two arms of slt, is invisible at the native level - that is C02/C05's subject - and is left alone)
            byid = {x["i"]: [a for a in x["ins"] if a[0] % 4 == 0] for x in e["blocks"]}
            nblk = collections.Counter(tuple(a) for v in byid.values() for a in {tuple(x) for x in v})
            idx = [k for k, ed in enumerate(e["edges"]) if byid.get(ed["h"]) and byid.get(ed["t"])
                   and byid[ed["h"]][-1] != byid[ed["t"]][0] and nblk[tuple(byid[ed["h"]][-1])] == 1]
            if not idx:
                continue
            e["edges"].pop(idx[0])
        elif kind == 4:
            e["edges"][0]["t"] = 99999                                 # edge to a missing block
        elif kind == 5:
            first = {x["i"]: x["ins"][0] for x in e["blocks"] if x["ins"]}
            # a block of another native instruction (another block of the entry's own multi-block instruction
            # starts at the same address: invisible at the native level)
            others = [i for i, a in first.items() if i != e["fentry"] and a != first.get(e["fentry"])]
            if not others:
                continue
            e["fentry"] = others[0]                                    # wrong entry block
        elif kind == 6:
            if len(e["blocks"]) < 2:
                continue
            e["blocks"] = e["blocks"][:-1]                             # a block vanishes (edges to it dangle)
        else:
            if r0["out"]["k"] not in ("limit", "exit") or len(r0["pcs"]) < 3:
                continue
            target = runs[0]
            if kind == 7:
                r0["pcs"][len(r0["pcs"]) // 2][0] ^= 8
            elif kind == 8:
                r0["out"]["npc"][0] ^= 4
            elif kind == 9:
                r0["post"]["gpr"][4]["v"][0] ^= 1
            elif kind == 10:
                r0["post"]["mem1"][17] = (r0["post"]["mem1"][17] + 1) % 256
            elif kind == 11:
                r0["out"] = {"k": "err", "e": "ExecutorNoValidLocation"}
            else:
                r0["post"]["gpr"] = r0["post"]["gpr"][:30]             # malformed: REJECT, not a TLC crash
        bad.add(target + 1)
        kinds[kind] += 1
        kind_of[target + 1] = kind
    q = ctx.work + "/selftest-mut.ndjson"
    with open(q, "w") as f:
        for e in evs:
            f.write(json.dumps(e) + "\n")
    r = ctx.tlc_trace(TRACE, q)
    got = {rj["line"] for rj in r.rejects}
    new = got - rejected_lines
    st = _stats([base])
    core.log("selftest: corrupted %d sessions (%s), rejected there %d, unexpected %s, missed %s; baseline structure ok=%d" % (
        len(bad), dict(kinds), len(bad & new), sorted(new - bad)[:5], [(x, kind_of[x]) for x in sorted(bad - new)[:8]], st.get("structure:ok", 0)))
    return len(bad) >= 40 and new == bad and len(kinds) == 13
