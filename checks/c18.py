"""C18 - program locations navigate and round-trip consistently.

MC:      MC_Loc (Forward/Backward converse, Locations duplicate-free, closure of Forward from the
         entry == graph-theoretic reachability, owned/apply round trip) on every structure with
         <= 3 blocks of 0..2 instructions.
Binding: recorder c18 builds random functions through falcon's API, places them in programs (also
         Program::clone and a deep copy) and logs forward()/backward() of every location,
         Function::locations(), the closure of forward() from from_function(), into()+apply() on the
         same / cloned / copied program, migrate(), and from_address for every address present +-1;
         Trace_C18 compares each observation with Loc.tla.
"""
import json
import os

from vlib import core

LEVEL = "model_checking"


def mc(ctx):
    ctx.tlc_mc("MC_Loc", "MC_Loc_2.cfg", key="MC_Loc 2 blocks x 0..2 instructions, all edge sets, all entries")
    ctx.tlc_mc("MC_Loc", "MC_Loc_3.cfg", key="MC_Loc 3 blocks x 0..2 instructions, all edge sets, all entries")


def stream(path):
    with open(path) as f:
        for l in f:
            if l.strip():
                yield json.loads(l)


def attach_sessions(results):
    """Make every rejection self-contained: add the descriptor of its program (the begin line)."""
    for r in results:
        lines = None
        for rj in r.rejects:
            if lines is None:
                with open(os.path.join(core.ROOT, rj["trace"])) as f:
                    lines = [l for l in f if l.strip()]
            i = rj.get("line")
            if isinstance(i, int):
                i -= 1
                while i > 0 and '"ev":"begin"' not in lines[i]:
                    i -= 1
                b = json.loads(lines[i])
                rj["session"] = [{"ev": "begin", "sid": b.get("sid", 0), "d": b["d"]}]


def validate(ctx, paths, nshards):
    shards = []
    for p in paths:
        shards += ctx.shard(p, nshards, by_session=True)
    results = ctx.tlc_trace_many("Trace_C18", shards, timeout=1500, parallel=min(core.NCPU, 16))
    attach_sessions(results)
    ctx.add_rejects(results)
    kinds = {}
    shapes = {"locations_ins": 0, "locations_edge": 0, "locations_empty": 0, "functions_without_entry": 0,
              "functions_with_duplicate_addresses": 0, "functions_with_index_gaps": 0, "self_loops": 0}
    sessions = 0
    for p in paths:
        for e in stream(p):
            kinds[e["ev"]] = kinds.get(e["ev"], 0) + 1
            if e["ev"] == "begin":
                sessions += 1
                if len(ctx.samples) < 2 and 1 <= sum(len(f["blocks"]) for f in e["prog"]) <= 6:
                    ctx.samples.append({"descriptor": e["d"], "program": e["prog"]})
                for f in e["prog"]:
                    if f["entry"] < 0:
                        shapes["functions_without_entry"] += 1
                    addrs = [i["a"] for b in f["blocks"] for i in b["ins"] if i["a"] >= 0]
                    if len(addrs) != len(set(addrs)):
                        shapes["functions_with_duplicate_addresses"] += 1
                    if any([i["i"] for i in b["ins"]] != list(range(len(b["ins"]))) for b in f["blocks"]):
                        shapes["functions_with_index_gaps"] += 1
                    shapes["self_loops"] += sum(1 for h, t in f["edges"] if h == t)
            elif e["ev"] == "nav":
                shapes["locations_" + e["loc"][1]] += 1
    ctx.traces += sessions
    ctx.extra["events_by_kind"] = kinds
    ctx.extra["shapes_generated"] = shapes
    return results


def run(ctx):
    ctx.build(["c18"])
    mc(ctx)
    q = ctx.quick
    if q:
        jobs = [("c18", ["--mode", "random", "--n", 240], "random.ndjson")]
    else:
        jobs = [("c18", ["--mode", "random", "--n", 3000, "--salt", k], "random%d.ndjson" % k) for k in range(4)]
    paths = ctx.record_many(jobs, parallel=4)
    validate(ctx, paths, 4)
    ctx.extra["generator_bounds"] = {"functions_per_program": "1..3", "blocks_per_function": "0..6",
                                     "instructions_per_block": "0..3 (+ Block::append of another block)",
                                     "addresses": "6 per parity class, about a quarter of the instructions without address",
                                     "edges_per_function": "0..2*blocks (self-loops, parallel in/out, conditional)"}
    ctx.assumptions += [
        "TLC 1.8.0 and the CommunityModules Json/IOUtils overrides",
        "harness projection of il::Function / il::RefProgramLocation / il::ProgramLocation to JSON through public accessors",
        "functions are built through falcon's own API (instruction indices are unique within a block)",
    ]


def replay(ctx, path):
    ctx.build(["c18"])
    with open(path) as f:
        rep = json.load(f)
    sess = rep["rejection"].get("session")
    if not sess:
        raise core.ToolError("replay file has no session inputs")
    inp = ctx.work + "/replay_in.ndjson"
    with open(inp, "w") as f:
        for e in sess:
            f.write(json.dumps(e) + "\n")
    out = ctx.record("c18", ["--mode", "replay", "--in", inp], "replay.ndjson")
    r = ctx.tlc_trace("Trace_C18", out)
    attach_sessions([r])
    ctx.traces += 1
    ctx.add_rejects(r)


# ------------------------------------------------------------------------------------------------
# binding self-test
# ------------------------------------------------------------------------------------------------
def _mutate(kind, evs, idxs):
    """Apply mutation `kind` to one event of the session; returns (expected rejected index, drop index)."""
    for n, i in enumerate(idxs[1:], start=1):
        e = evs[i]
        ev = e["ev"]
        if kind == "fwd_drop" and ev == "nav" and "ok" in e["fwd"] and e["fwd"]["ok"]:
            e["fwd"]["ok"] = e["fwd"]["ok"][1:]
            return i, None
        if kind == "bwd_self" and ev == "nav" and "ok" in e["bwd"] and e["bwd"]["ok"] != [e["loc"]]:
            e["bwd"]["ok"] = [e["loc"]]
            return i, None
        if kind == "fwd_swap" and ev == "nav" and e["loc"][1] == "edge" and e["loc"][2] != e["loc"][3] and e["fwd"]["ok"] != e["bwd"]["ok"]:
            e["fwd"], e["bwd"] = e["bwd"], e["fwd"]
            return i, None
        if kind == "locations_skip_empty" and ev == "locations" and any(x[1] == "empty" for x in e["res"]["ok"]):
            e["res"]["ok"] = [x for x in e["res"]["ok"] if x[1] != "empty"]
            return i, None
        if kind == "locations_dup" and ev == "locations" and e["res"]["ok"]:
            e["res"]["ok"].append(e["res"]["ok"][0])
            return i, None
        if kind == "closure_extra" and ev == "closure" and "ok" in e["locs"]:
            e["locs"]["ok"].append([e["fi"], "edge", 41, 42])
            return i, None
        if kind == "closure_missing" and ev == "closure" and len(e["locs"].get("ok", [])) >= 2:
            e["locs"]["ok"].pop()
            return i, None
        if kind == "apply_position" and ev == "roundtrip" and e["loc"][1] == "ins":
            e["deep"]["ok"] = e["deep"]["ok"][:3] + [e["deep"]["ok"][3] + 1]
            return i, None
        if kind == "owned" and ev == "roundtrip" and e["loc"][1] == "edge" and e["loc"][2] != e["loc"][3]:
            e["owned"] = [e["owned"][0], e["owned"][2], e["owned"][1]]
            return i, None
        if kind == "migrate_fn" and ev == "roundtrip":
            e["migrate"]["ok"] = [e["migrate"]["ok"][0] + 1] + e["migrate"]["ok"][1:]
            return i, None
        if kind == "addr_none" and ev == "from_address" and e["res"]["ok"]["loc"]:
            e["res"]["ok"] = {"loc": [], "raddr": -1}
            return i, None
        if kind == "addr_wrong" and ev == "from_address" and not e["res"]["ok"]["loc"]:
            # claim an instruction of the program that does not have this address
            prog = evs[idxs[0]]["prog"]
            for f in prog:
                for b in f["blocks"]:
                    for ins in b["ins"]:
                        if ins["a"] != e["addr"]:
                            e["res"]["ok"] = {"loc": [[f["fi"], "ins", b["i"], ins["i"]]], "raddr": e["addr"]}
                            return i, None
        if kind == "drop_nav" and ev == "nav":
            # the converse line of this program must notice the missing location
            conv = [j for j in idxs if evs[j]["ev"] == "converse"]
            if conv:
                return conv[0], i
    return None


def selftest(ctx):
    ctx.build(["c18"])
    p = ctx.record("c18", ["--mode", "random", "--n", 120], "selftest.ndjson")
    evs = ctx.read_ndjson(p)
    r0 = ctx.tlc_trace("Trace_C18", p)
    genuine = {rj["line"] - 1 for rj in r0.rejects}
    sessions = []
    for i, e in enumerate(evs):
        if e["ev"] == "begin":
            sessions.append([i])
        else:
            sessions[-1].append(i)
    clean = [s for s in sessions if not (set(s) & genuine)]
    kinds = ["fwd_drop", "bwd_self", "fwd_swap", "locations_skip_empty", "locations_dup", "closure_extra",
             "closure_missing", "apply_position", "owned", "migrate_fn", "addr_none", "addr_wrong", "drop_nav",
             "fwd_drop", "bwd_self"]
    expect = set(genuine)
    dropped = set()
    applied = {}
    si = 0
    for kind in kinds:
        while si < len(clean):
            s = clean[si]
            si += 1
            m = _mutate(kind, evs, s)
            if m is not None:
                expect.add(m[0])
                if m[1] is not None:
                    dropped.add(m[1])
                applied[kind] = applied.get(kind, 0) + 1
                break
    q = ctx.work + "/selftest_mut.ndjson"
    newline = {}
    n = 0
    with open(q, "w") as f:
        for i, e in enumerate(evs):
            if i in dropped:
                continue
            n += 1
            newline[i] = n
            f.write(json.dumps(e) + "\n")
    r = ctx.tlc_trace("Trace_C18", q)
    got = {rj["line"] for rj in r.rejects}
    want = {newline[i] for i in expect}
    core.log("selftest: mutations applied %s; genuine rejections %d; expected %d, rejected %d, unexpected %d, missed %d" % (
        applied, len(genuine), len(want), len(got), len(got - want), len(want - got)))
    for rj in r.rejects:
        if rj["line"] in (got - want):
            core.log("  unexpected: line %d %s" % (rj["line"], rj["why"]))
    return len(applied) >= 12 and got == want
