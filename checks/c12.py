"""C12 - reaching definitions and def-use/use-def chains cover every execution.

Binding: recorder c12 runs reaching_definitions / use_def / def_use on generated functions and
exports the three maps; X_C12 explores every execution of each function under ILSem with the
history variable lastWriter and checks RDSound / UDSound on every reachable state, RDTight and
DUInverse statically.
"""
import json

from checks import xcommon
from vlib import core

LEVEL = "model_checking"


def run(ctx):
    ctx.build(["c12"])
    paths, rs = xcommon.explore(ctx, "c12", "X_C12", 300, 4000, lifted=True)
    ent = {"rd": 0, "ud": 0, "du": 0}
    outc = {}
    for p in paths:
        with open(p) as f:
            for q in json.load(f)["progs"]:
                for a in ent:
                    o = q["ana"][a]
                    outc[a + ":" + o["k"]] = outc.get(a + ":" + o["k"], 0) + 1
                    if o["k"] == "ok":
                        ent[a] += sum(len(t["defs"]) for t in o["tab"])
    ctx.extra["chain_entries_exported"] = ent
    ctx.extra["analysis_outcomes"] = outc
    ctx.assumptions += ["ILSem is the semantics of the IL (bound to the executor by C07)",
                        "an intrinsic is a writer only of the scalars it declares; an indirect branch or an undeclared "
                        "intrinsic havocs values but is not a definition",
                        "data scalars sampled, control scalars enumerated; loops bounded by 40 steps"]


def replay(ctx, path):
    xcommon.replay(ctx, path, "c12", "X_C12")


def selftest(ctx):
    """Remove one definition from a reaching-definition set / a use-def chain and expect a report."""
    ctx.build(["c12"])
    p = ctx.record("c12", ["--mode", "random", "--n", 24], "selftest.json")
    with open(p) as f:
        d = json.load(f)
    touched = set()
    for pi, q in enumerate(d["progs"], 1):
        a = "rd" if pi % 2 == 0 else "ud"
        o = q["ana"][a]
        if o["k"] != "ok":
            continue
        for t in o["tab"]:
            if t["defs"]:
                t["defs"] = []
        touched.add(pi)
    q2 = p + ".mut"
    with open(q2, "w") as f:
        json.dump(d, f)
    r = ctx.tlc_explore("X_C12", q2)
    got = {rj["prog"] for rj in r.rejects}
    core.log("selftest: emptied chains in %d programs, reports in %d programs, unexpected %s" % (
        len(touched), len(got), sorted(got - touched)))
    return len(got) >= len(touched) // 2 and got <= touched
