"""C10 - SSA transformation yields valid SSA that preserves behaviour.

Binding: recorder c10 runs transformation::ssa_transformation on generated functions and exports
input P and output S; X_C10 explores the lock-step product (P over unversioned scalars, S over
versioned scalars with phi nodes evaluated in parallel on the incoming edge): every version read
by S - in instruction operands, out-edge guards and phi inputs - must be defined and hold the
current value of the scalar in P; statically: same shape after erasing versions, single
assignment, phi nodes with one incoming version per predecessor and an entry scalar exactly at
the entry block; the transformation must succeed on every function with an entry.
"""
import json

from checks import xcommon
from vlib import core

LEVEL = "model_checking"


def run(ctx):
    ctx.build(["c10"])
    paths, rs = xcommon.explore(ctx, "c10", "X_C10", 300, 3000, lifted=True)
    phis = 0
    outc = {}
    for p in paths:
        with open(p) as f:
            for q in json.load(f)["progs"]:
                outc[q["outcome"]["k"]] = outc.get(q["outcome"]["k"], 0) + 1
                if "s" in q:
                    phis += sum(len(b["phi"]) for b in q["s"]["blocks"])
    ctx.extra["phi_nodes_in_outputs"] = phis
    ctx.extra["ssa_outcomes"] = outc
    ctx.assumptions += ["ILSem is the semantics of the IL (bound to the executor by C07); phi nodes select by incoming edge",
                        "indirect branches and intrinsics end an execution after their reads are checked",
                        "control scalars enumerated, data scalars sampled; loops bounded by 40 steps"]


def replay(ctx, path):
    xcommon.replay(ctx, path, "c10", "X_C10")


def selftest(ctx):
    """Bump the version of one read in the SSA output / drop a phi node and expect reports."""
    ctx.build(["c10"])
    p = ctx.record("c10", ["--mode", "random", "--n", 24], "selftest.json")
    with open(p) as f:
        d = json.load(f)
    touched = set()

    def bump(e):
        if e["k"] == "scalar":
            e["ssa"] = e["ssa"] + 1 if e["ssa"] >= 0 else 1
            return True
        for k in ("a", "b", "c"):
            if k in e and isinstance(e[k], dict) and bump(e[k]):
                return True
        return False

    for pi, q in enumerate(d["progs"], 1):
        if "s" not in q or pi % 2:
            continue
        done = False
        for b in q["s"]["blocks"]:
            if b["i"] != q["s"]["entry"]:
                continue
            for i in b["ins"]:
                if i["op"]["k"] == "assign" and bump(i["op"]["src"]):
                    done = True
                    break
        if done:
            touched.add(pi)
    q2 = p + ".mut"
    with open(q2, "w") as f:
        json.dump(d, f)
    r = ctx.tlc_explore("X_C10", q2)
    got = {rj["prog"] for rj in r.rejects}
    core.log("selftest: bumped a read version in %d outputs, reported in %d, unexpected %s" % (
        len(touched), len(got), sorted(got - touched)))
    return len(touched) >= 3 and touched <= got
