"""C01 - the x86 / amd64 lifter agrees with the processor on every instruction and state.

MC:      MC_X86 (flag and sub-register algebra of spec/X86.tla against integer arithmetic,
         exhaustive at small widths).
Binding: recorder c01 takes instruction instances (assembled templates of corpus/c01 x shaped
         initial states), runs the bytes natively on the host CPU (amd64) and through falcon's
         lifter + executor, and logs `begin` / `cpu` / `lifted` per instance.  Trace_C01 executes
         X86!Exec once per instance and validates BOTH observations against it:
           cpu disagrees     -> spec_unsure (a defect of the specification; never a verdict)
           cpu agrees, lifted disagrees -> rejection, one per differing component
         32-bit instances have no grounding; their rejections are kept only for instruction forms
         whose amd64 twin was grounded (agreed, never unsure) in this run.
Rejections are split per differing component (register, flag, memory, pc) so that every
known-findings entry names {mode, mnemonic, operand form, component, state class}.
"""
import collections
import json
import os
import re

from vlib import core

LEVEL = "model_checking"
CORPUS = os.path.join(core.ROOT, "corpus", "c01")
_TAG = re.compile(r'^<<"C01", "([A-Z-]+)", (\d+), (.*)>>\s*$')


def mc(ctx):
    ctx.tlc_mc("MC_X86", "MC_X86.cfg", key="MC_X86 flags and sub-registers, widths 4..6", workers=8, heap="4g")
    ctx.tlc_mc("MC_X86", "MC_X86_L8.cfg", key="MC_X86 LimbBits=8, width 8", workers=8, heap="4g")


# ------------------------------------------------------------------------------------------------
# description of a rejected instance for known_findings matching (classification only)
# ------------------------------------------------------------------------------------------------
def _int(limbs):
    return sum(b << (8 * i) for i, b in enumerate(limbs)) if isinstance(limbs, list) else limbs


def describe(begin, lifted):
    ins = begin["ins"]
    st = begin["st"]
    mode = begin["mode"]
    ops = ins["ops"]
    regs = {r["n"]: _int(r["v"]) for r in st["regs"]}
    opv = [(_int(v) if v != [] else None) for v in st.get("opv", [])] + [None] * 4
    mn = ins["mn"]
    acc = "rax" if mode == 64 else "eax"
    # a high-byte register (ah/bh/ch/dh) written by the instruction: explicit destination operands, or AH
    # as the remainder of an 8-bit divide
    written = []
    if ops and ops[0]["k"] == "reg" and mn not in ("cmp", "test", "bt", "push", "jmp", "call", "mul", "imul", "div", "idiv"):
        written.append(ops[0])
    if mn in ("xchg", "xadd") and len(ops) > 1 and ops[1]["k"] == "reg":
        written.append(ops[1])
    dst_high = [o["f"] for o in written if o.get("o") == 8]
    if mn in ("div", "idiv") and ins["sz"] == 8:
        dst_high.append(acc)
    # raw shift / rotate count or bit offset
    count = None
    if mn in ("shl", "shr", "sar", "rol", "ror", "bt", "btc", "btr", "bts") and len(ops) > 1:
        count = opv[1]
    if mn in ("shld", "shrd") and len(ops) > 2:
        count = opv[2]
    res = lifted.get("res", {})
    return {"ev": "lifted", "mode": mode, "asm": begin.get("asm", ""), "mn": mn, "form": ins.get("form", ""),
            "sz": ins.get("sz", 0), "pfx": ins.get("pfx", ""), "cc": ins.get("cc", ""), "ops": ops,
            "bytes": begin["bytes"], "fl": st["fl"], "regs": regs, "opv": opv[:len(ops)], "count": count,
            "dst_high": dst_high, "acc": acc, "as32": any(o["k"] == "mem" and o["as"] != mode for o in ops),
            "outcome": ("ok" if "ok" in res else json.dumps(res, sort_keys=True)[:120])}


def explode(rj, begin, lifted):
    """one rejection record per differing component"""
    ev = describe(begin, lifted)
    base = {"why": rj["why"], "line": rj.get("line"), "trace": rj.get("trace"), "event": ev, "begin": begin}
    exp = rj.get("expected", {})
    out = []
    if rj["why"] != "state" or "diff" not in exp:
        out.append(dict(base, component="", kind=rj["why"], want=None, got=None, init=None))
        return out
    d = exp["diff"]
    regs = ev["regs"]
    xmm0 = {x["n"]: _int(x["v"]) for x in begin["st"]["xmm"]}
    for x in d["regs"]:
        out.append(dict(base, component=x["c"], kind="reg", want=_int(x["want"]), got=_int(x["got"]["v"]),
                        got_w=x["got"]["w"], init=regs.get(x["c"])))
    for x in d["xmm"]:
        out.append(dict(base, component=x["c"], kind="xmm", want=_int(x["want"]), got=_int(x["got"]["v"]),
                        got_w=x["got"]["w"], init=xmm0.get(x["c"], 0)))
    for x in d["fl"]:
        out.append(dict(base, component=x["c"], kind="flag", want=x["want"], got=x["got"], init=begin["st"]["fl"].get(x["c"])))
    for x in d["mem"]:
        out.append(dict(base, component="mem", kind="mem", want=x["want"], got=x["got"], init=None, first=x["first"], n=x["n"]))
    for x in d["pc"]:
        out.append(dict(base, component="pc", kind="pc", want=_int(x["want"]), got=_int(x["got"]), init=None))
    if d.get("other"):
        out.append(dict(base, component="other", kind="other", want=None, got=None, init=None))
    return out


# mnemonics that exist in one mode only but are the same X86.tla definition at another count-register width
_TWIN_ALIAS = {"jcxz": "jecxz", "jrcxz": "jecxz"}


def twin_key(ins, mode):
    """(mnemonic, prefix, condition, operand form) with the mode's default operand size written W for the
    stack and branch instructions: the 32-bit instance and its amd64 twin run the same clauses of X86.tla."""
    form = ins.get("form", "")
    if ins["mn"] in ("push", "pop", "call", "jmp"):
        form = form.replace(str(mode), "W")
    return "%s|%s|%s|%s" % (_TWIN_ALIAS.get(ins["mn"], ins["mn"]), ins.get("pfx", ""), ins.get("cc", ""), form)


def shape_key(key):
    """the twin key without operand sizes (r8/r16/r32/r64 -> r, m16 -> m; rh, x, i, rel stay): X86.tla's clauses are
    generic in the operand size (MC_X86 checks the flag / sub-register algebra per width), so a 32-bit form is
    also admitted when its amd64 twin was grounded at another operand size"""
    head, form = key.rsplit("|", 1)
    return head + "|" + re.sub(r"\b([rm])(?:8|16|32|64|128|W)\b", r"\1", form)


# ------------------------------------------------------------------------------------------------
def validate(ctx, paths, nshards, parallel=None, twin_filter=True):
    shards = []
    for p in paths:
        shards += ctx.shard(p, nshards, by_session=True)
    results = ctx.tlc_trace_many("Trace_C01", shards, parallel=parallel, timeout=3000, heap="2g")
    tags = collections.Counter()
    per_mn = collections.defaultdict(collections.Counter)
    unsure_forms, agreed_forms = set(), set()
    unsure_shapes, agreed_shapes = set(), set()
    unspec_why, not_accepted = collections.Counter(), collections.Counter()
    unsure_samples = []
    pending32 = []
    sessions = 0
    grounded64 = 0
    cpu_outcomes = collections.Counter()
    for shard, r in zip(shards, results):
        evs = ctx.read_ndjson(shard)
        begin_at = {}
        cur = None
        for i, e in enumerate(evs):
            if e["ev"] == "begin":
                cur = e
                sessions += 1
                per_mn["%s" % e["mode"]][e["ins"]["mn"]] += 1
                if len(ctx.samples) < 2 and sessions % 401 == 7:
                    ctx.samples.append({"begin": {k: e[k] for k in ("mode", "asm", "bytes", "ins")},
                                        "cpu": evs[i + 1]["res"] if i + 1 < len(evs) else None,
                                        "lifted": evs[i + 2]["res"] if i + 2 < len(evs) else None})
            elif e["ev"] == "cpu":
                k = list(e["res"].keys())[0]
                cpu_outcomes[k if k != "fault" else "fault:" + e["res"]["fault"]] += 1
            begin_at[i + 1] = cur
        for p in r.prints:
            m = _TAG.match(p)
            if not m:
                continue
            tag, line = m.group(1), int(m.group(2))
            b = begin_at.get(line)
            if b is None:
                continue
            tags[tag] += 1
            if tag == "UNSPEC":
                w = re.findall(r'"([^"]*)"', m.group(3))
                unspec_why[(w[1] if len(w) > 1 else "?") + (" [%s]" % b["ins"]["mn"] if len(w) > 1 and w[1].startswith(("not modelled", "no semantics")) else "")] += 1
            elif tag == "NOTACCEPTED":
                not_accepted["%d %s %s" % (b["mode"], b["ins"]["mn"], b["ins"].get("form", ""))] += 1
            key = twin_key(b["ins"], b["mode"])
            if tag == "UNSURE":
                if b["mode"] == 64:
                    unsure_forms.add(key)
                    unsure_shapes.add(shape_key(key))
                if len(unsure_samples) < 10:
                    unsure_samples.append({"asm": b["asm"], "detail": core._unescape_tla_string(m.group(3).strip().strip('"'))[:600]})
            elif tag == "GROUNDED" and b["mode"] == 64:
                agreed_forms.add(key)
                agreed_shapes.add(shape_key(key))
                grounded64 += 1
        for rj in r.rejects:
            ln = rj.get("line")
            b = begin_at.get(ln)
            lifted = evs[ln - 1] if isinstance(ln, int) and 1 <= ln <= len(evs) else {}
            if b is None:
                ctx.reject(rj)
                continue
            recs = explode(rj, b, lifted)
            if b["mode"] == 32 and rj["why"] != "sort":
                pending32.append((twin_key(b["ins"], 32), recs))
            else:
                for x in recs:
                    ctx.reject(x)
    dropped32 = 0
    dropped_keys = set()
    for key, recs in pending32:
        sk = shape_key(key)
        if not twin_filter or (key in agreed_forms and key not in unsure_forms) or \
                (key not in unsure_forms and sk in agreed_shapes and sk not in unsure_shapes):
            for x in recs:
                ctx.reject(x)
        else:
            dropped32 += 1
            dropped_keys.add(key)
    ctx.traces += sessions
    ctx.extra["instances_by_mode_and_mnemonic"] = {m: dict(sorted(c.items())) for m, c in per_mn.items()}
    ctx.extra["cpu_events"] = dict(cpu_outcomes)
    ctx.extra["cpu_grounded_agree"] = grounded64
    tags.pop("GROUNDED", None)                     # a cpu-event tag (counted in cpu_grounded_agree)
    ctx.extra["classification"] = dict(tags)
    ctx.extra["unspecified"] = tags["UNSPEC"] + tags["UNGROUNDED"]
    ctx.extra["unspecified_by_reason"] = dict(sorted(unspec_why.items()))
    ctx.extra["not_accepted_forms"] = dict(sorted(not_accepted.items()))
    ctx.extra["spec_unsure"] = tags["UNSURE"]
    ctx.extra["spec_unsure_samples"] = unsure_samples
    ctx.extra["not_accepted_by_lifter"] = tags["NOTACCEPTED"]
    ctx.extra["fault_agreed_not_judged"] = tags["FAULT"]
    ctx.extra["judged"] = tags["JUDGED"]
    ctx.extra["x86_32_rejected_instances_without_grounded_twin"] = dropped32
    ctx.extra["x86_32_forms_without_grounded_twin"] = sorted(dropped_keys)[:60]
    ctx.extra["amd64_forms_grounded"] = len(agreed_forms)
    ctx.extra["amd64_forms_unsure"] = sorted(unsure_forms)
    return tags


def corpus_sizes():
    out = {}
    for a in ("amd64", "x86"):
        with open(os.path.join(CORPUS, a + ".tsv")) as f:
            out[a] = sum(1 for l in f if l.strip())
    return out


def run(ctx):
    ctx.build(["c01"])
    mc(ctx)
    q = ctx.quick
    sizes = corpus_sizes()
    # amd64: every template at least once in the quick tier
    n64, n32 = (2000, 900) if q else (40000, 14000)
    k64, k32 = (4, 2) if q else (10, 4)
    jobs = []
    for i in range(k64):
        jobs.append(("c01", ["--mode", "record", "--arch", "amd64", "--corpus", CORPUS, "--n", n64 // k64, "--part", i, "--parts", k64],
                     "amd64-%d.ndjson" % i, {"extra_env": {"VERIF_SEED": str(ctx.seed), "C01_CORPUS": CORPUS}}))
    for i in range(k32):
        jobs.append(("c01", ["--mode", "record", "--arch", "x86", "--corpus", CORPUS, "--n", n32 // k32, "--part", i, "--parts", k32],
                     "x86-%d.ndjson" % i, {"extra_env": {"VERIF_SEED": str(ctx.seed), "C01_CORPUS": CORPUS}}))
    par = int(os.environ.get("C01_PAR", "0"))
    paths = ctx.record_many(jobs, parallel=par or 6)
    tags = validate(ctx, paths, 2, parallel=par or 12)
    if os.environ.get("C01_DUMP"):                      # development aid: the raw rejection records
        with open(os.environ["C01_DUMP"], "w") as f:
            json.dump(ctx.rejections, f)
    if ctx.extra["cpu_events"].get("ok", 0) == 0:
        raise core.ToolError("no instance could be executed natively: the specification is not grounded")
    ctx.extra["templates"] = sizes
    ctx.assumptions += [
        "TLC 1.8.0 and the CommunityModules Json/IOUtils/Bitwise overrides",
        "the abstract instruction judged by X86.tla is the assembled template (llvm-mc 14), not capstone's decoding",
        "X86.tla is a transcription of the SDM; for amd64 every judged instance is one on which the host CPU "
        "(x86-64, executed natively from the same initial state) agreed with it; 32-bit instances are judged only "
        "for forms whose amd64 twin was grounded in this run",
        "flags the SDM leaves undefined (per instruction and count), PF and AF, memory outside the 256-byte window, "
        "segment overrides, privileged and intrinsic instructions are not judged (counted as unspecified)",
        "harness projection: final state logged as differences from the initial state; initial XMM registers "
        "not named by the instruction are zero",
    ]


def _revalidate(ctx, begin):
    inp = os.path.join(ctx.work, "replay_in.ndjson")
    with open(inp, "w") as f:
        f.write(json.dumps(begin) + "\n")
    out = ctx.record("c01", ["--mode", "replay", "--in", inp], "replay.ndjson", extra_env={"C01_CORPUS": CORPUS})
    # a replayed 32-bit instance was admitted by the twin rule in the run that reported it
    validate(ctx, [out], 1, twin_filter=False)


def replay(ctx, path):
    ctx.build(["c01"])
    with open(path) as f:
        rep = json.load(f)
    rj = rep.get("rejection", rep)
    begin = rj.get("begin")
    if begin is None:
        raise core.ToolError("replay file has no begin event")
    _revalidate(ctx, begin)


def selftest(ctx):
    """Corrupt recorded observations (a register, a flag, a memory byte, the next pc, the shape of a
    final state), swap / drop events: exactly the touched sessions must be rejected; corrupting the
    `cpu` observation must turn the session into spec-unsure (not a rejection)."""
    ctx.build(["c01"])
    p = ctx.record("c01", ["--mode", "record", "--arch", "amd64", "--corpus", CORPUS, "--n", 260], "selftest.ndjson",
                   extra_env={"C01_CORPUS": CORPUS})
    evs = ctx.read_ndjson(p)
    base = ctx.tlc_trace("Trace_C01", p)
    base_bad = set()
    sess_of = {}
    s = 0
    for i, e in enumerate(evs):
        if e["ev"] == "begin":
            s += 1
        sess_of[i + 1] = s
    for rj in base.rejects:
        base_bad.add(sess_of[rj["line"]])
    judged = set()
    for pr in base.prints:
        m = _TAG.match(pr)
        if m and m.group(1) == "JUDGED":
            judged.add(sess_of[int(m.group(2))])
    clean = sorted(judged - base_bad)
    out = [dict(e) for e in evs]
    mutated, expect_unsure = set(), set()
    kinds = ["reg", "flag", "pc", "shape", "cpu", "garbage-width", "outcome", "unknown-reg"]
    idx_of_sess = {}
    for i, e in enumerate(evs):
        if e["ev"] == "begin":
            idx_of_sess[sess_of[i + 1]] = i
    for k, sn in enumerate(clean[:64]):
        i = idx_of_sess[sn]
        kind = kinds[k % len(kinds)]
        lifted = json.loads(json.dumps(evs[i + 2]))
        cpu = json.loads(json.dumps(evs[i + 1]))
        if "ok" not in lifted["res"] or "ok" not in cpu["res"]:
            continue
        ok = lifted["res"]["ok"]
        if kind == "reg":
            ok["regs"] = [r for r in ok["regs"] if r["n"] != "r9"] + [{"n": "r9", "w": 64, "v": [1, 2, 3, 4, 5, 6, 7, (k * 7) % 256]}]
        elif kind == "flag":
            undefined_possible = evs[i]["ins"]["mn"] in ("shl", "shr", "sar", "rol", "ror", "shld", "shrd", "mul", "imul", "div", "idiv",
                                                          "bt", "btc", "btr", "bts", "bsf", "bsr")
            f = "DF" if undefined_possible else "ZF"
            ok["fl"][f] ^= 1
        elif kind == "pc":
            ok["pc"][0] ^= 0x10
        elif kind == "shape":
            del ok["fl"]["SF"]
        elif kind == "garbage-width":
            ok["regs"] = [r for r in ok["regs"] if r["n"] != "rax"] + [{"n": "rax", "w": 32, "v": [0, 0, 0, 0]}]
        elif kind == "outcome":
            lifted["res"] = {"err": "ExecutorScalar"}
        elif kind == "unknown-reg":
            ok["regs"].append({"n": "zmm77", "w": 64, "v": [0] * 8})
        elif kind == "cpu":
            cpu["res"]["ok"]["fl"]["DF"] ^= 1
            out[i + 1] = cpu
            expect_unsure.add(sn)
            continue
        out[i + 2] = lifted
        mutated.add(sn)
    # drop the cpu event of one more clean session, and swap cpu/lifted in another
    extra = clean[64:66]
    drop_lines = set()
    if len(extra) == 2:
        i = idx_of_sess[extra[0]]
        drop_lines.add(i + 1)
        mutated.add(extra[0])
        j = idx_of_sess[extra[1]]
        out[j + 1], out[j + 2] = out[j + 2], out[j + 1]
        mutated.add(extra[1])
    q = p + ".mut"
    new_sess = {}
    with open(q, "w") as f:
        ln = 0
        for i, e in enumerate(out):
            if i in drop_lines:
                continue
            ln += 1
            new_sess[ln] = sess_of[i + 1]
            f.write(json.dumps(e) + "\n")
    r = ctx.tlc_trace("Trace_C01", q)
    got = {new_sess[rj["line"]] for rj in r.rejects} - base_bad
    unsure = set()
    for pr in r.prints:
        m = _TAG.match(pr)
        if m and m.group(1) == "UNSURE":
            unsure.add(new_sess[int(m.group(2))])
    core.log("selftest: mutated %d sessions (+%d cpu), rejected %d, unexpected %s, missed %s, unsure %d/%d" % (
        len(mutated), len(expect_unsure), len(got), sorted(got - mutated), sorted(mutated - got),
        len(unsure & expect_unsure), len(expect_unsure)))
    return len(mutated) >= 20 and got == mutated and expect_unsure <= unsure and not (got & expect_unsure)
