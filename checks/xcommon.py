"""Shared driver of the program-exploration checks (C10, C12, C13, C14, C17)."""
import json
import os

from vlib import core


def explore(ctx, binname, module, n_quick, n_thorough, per_file=25, cfg=None, extra_args=None, workers=4, lifted=False):
    """Export programs with the recorder in batches, explore each batch with TLC."""
    n = n_quick if ctx.quick else n_thorough
    nfiles = max(1, (n + per_file - 1) // per_file)
    jobs = []
    for i in range(nfiles):
        jobs.append((binname, ["--mode", "random", "--n", per_file] + (extra_args or []), "x%03d.json" % i,
                     {"extra_env": {"VERIF_SEED": str(ctx.seed * 100000 + i)}}))
    paths = ctx.record_many(jobs, parallel=4)
    rs = ctx.tlc_explore_many(module, paths, parallel=4 if ctx.quick else 8, cfg=cfg, workers=workers)
    # second source: functions lifted by the real translators from corpus/c17 and corpus/lifted (if the recorder supports it)
    if lifted:
        lp = ctx.record(binname, ["--mode", "lifted", "--corpus", os.path.join(core.ROOT, "corpus", "c17") + "," + os.path.join(core.ROOT, "corpus", "lifted")], "lifted.json")
        rs.append(ctx.tlc_explore(module, lp, cfg=cfg, workers=workers))
        paths = paths + [lp]
    nprog = 0
    for p in paths:
        with open(p) as f:
            progs = json.load(f)["progs"]
        nprog += len(progs)
        if progs and len(ctx.samples) < 2:
            q = dict(progs[0])
            q["inits"] = q["inits"][:1]
            ctx.samples.append(q)
    ctx.traces += nprog
    ctx.extra["programs"] = nprog
    for r in rs:
        for rj in r.rejects:
            ctx.reject(rj)
    return paths, rs


def replay(ctx, path, binname, module, cfg=None):
    """Re-analyse the stored program with the current code and explore it again."""
    ctx.build([binname])
    with open(path) as f:
        rep = json.load(f)
    prog = rep["rejection"].get("program")
    if prog is None:
        raise core.ToolError("replay file carries no program")
    inp = os.path.join(ctx.work, "replay_in.json")
    with open(inp, "w") as f:
        json.dump({"progs": [prog]}, f)
    out = ctx.record(binname, ["--mode", "replay", "--in", inp], "replay.json")
    r = ctx.tlc_explore(module, out, cfg=cfg)
    ctx.traces += 1
    for rj in r.rejects:
        ctx.reject(rj)
