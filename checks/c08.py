"""C08 - paged memory is a byte-addressed array with independent clones.

Spec:    spec/Mem.tla over spec/Backing.tla (design level: bytes per handle, set_permissions log,
         modification stamps; no pages, no cells).
MC:      spec/mc/MC_Mem.tla: every small history of Mem; the definitions are compared with second
         formulations on every state, and every history is printed as one JSON line.
Binding: (a) specification -> implementation: the recorder c08 replays every TLC-generated history
         into memory::paged::Memory<il::Constant> and <il::Expression> with the window across the
         page boundaries at 1024 / 2^32 / 2^63; (b) implementation -> specification: long random
         histories (4 handles, clone/store interleavings, widths 8..256, page-crossing addresses,
         permissions, eq).  Trace_C08 carries the Mem state and judges every recorded result.
"""
import hashlib
import json
import os
import re
import time

from vlib import core

LEVEL = "model_checking"
TRACE = "Trace_C08"
_JTO = "-Xss1g -DTLA-Library=%s -Dtlc2.tool.queue.IStateQueue=StateDeque -XX:ParallelGCThreads=2 " % core.SPEC
# short traces (quick tier, replay, selftest): C1 only, the JIT warm-up costs more than it gains
TLC_ENV = {"JAVA_TOOL_OPTIONS": _JTO + "-XX:TieredStopAtLevel=1"}
TLC_ENV_LONG = {"JAVA_TOOL_OPTIONS": _JTO + "-XX:CICompilerCount=2"}
_HIST = re.compile(r'^<<"HIST", "(.*)">>\s*$')


# ------------------------------------------------------------------------------------------------
# model checking of Mem + behaviour generation
# ------------------------------------------------------------------------------------------------
def _spec_hash(names):
    h = hashlib.sha1()
    for n in names:
        with open(os.path.join(core.SPEC, n), "rb") as f:
            h.update(n.encode() + b"\0" + f.read())
    return h.hexdigest()[:16]


def mc_run(ctx, module, cfg, key, deps, hist=False):
    """Model-check spec/mc/<module> with `cfg` (a failure is a tool error).  With hist=True the run
    also prints every history (invariant Dump) and the path of the ndjson file holding them is
    returned.  MC does not depend on /repo: the quick tier re-uses the statistics (and histories) of
    an earlier identical run - identical texts of the modules in `deps`."""
    hsh = _spec_hash(deps + ["mc/%s.tla" % module, "mc/" + cfg])
    cdir = os.path.join(core.WORK, "mc_cache")
    os.makedirs(cdir, exist_ok=True)
    base = os.path.join(cdir, "C08-%s-%s" % (cfg.replace(".cfg", ""), hsh))
    if ctx.quick and os.path.exists(base + ".json") and (not hist or os.path.exists(base + ".ndjson")) \
            and not os.environ.get("VERIF_NO_MC_CACHE"):
        with open(base + ".json") as f:
            st = json.load(f)
        st["cached"] = True
    else:
        r = core.run_tlc(os.path.join(core.SPEC, "mc", module + ".tla"), os.path.join(core.SPEC, "mc", cfg),
                         workers=min(core.NCPU, 16), heap="6g", timeout=1800, coverage=False, depth_first=False)
        if not r.ok:
            raise core.ToolError("model checking of %s/%s failed:\n%s" % (module, cfg, core.tlc_error_summary(r)))
        st = {"distinct_states": r.distinct, "states_generated": r.generated, "depth": r.depth,
              "wall_s": round(r.wall, 1)}
        if hist:
            n = 0
            with open(base + ".ndjson.tmp", "w") as f:
                for line in r.prints:
                    m = _HIST.match(line)
                    if m:
                        s = core._unescape_tla_string(m.group(1))
                        json.loads(s)
                        f.write(s + "\n")
                        n += 1
            if n != r.distinct:
                raise core.ToolError("%s/%s printed %d histories for %d states" % (module, cfg, n, r.distinct))
            os.replace(base + ".ndjson.tmp", base + ".ndjson")
            st["histories"] = n
        with open(base + ".json", "w") as f:
            json.dump(st, f)
    ctx.mc[key] = st
    ctx.states += st["distinct_states"]
    ctx.transitions += st["states_generated"]
    return (base + ".ndjson", st["histories"]) if hist else None


MEM_DEPS = ["Backing.tla", "Mem.tla", "BV.tla"]


def mc_histories(ctx, cfg, key):
    return mc_run(ctx, "MC_Mem", cfg, key, MEM_DEPS, hist=True)


def mc(ctx):
    out = [mc_histories(ctx, "MC_Mem_2.cfg", "MC_Mem <=2 ops, full alphabet")]
    if not ctx.quick:
        out.append(mc_histories(ctx, "MC_Mem_3s.cfg", "MC_Mem <=3 stores/clones"))
    # the expectations hard-coded in falcon's own paged-memory unit tests are what Mem answers
    mc_run(ctx, "MC_MemUnit", "MC_MemUnit.cfg", "MC_MemUnit: the 5 unit tests of paged.rs", ["Backing.tla", "Mem.tla"])
    # the implementation-shaped model (cells, three-step store, fast path / fallback load) refines Mem
    n = 2 if ctx.quick else 3
    for e in ("little", "big"):
        mc_run(ctx, "MC_Paged", "MC_Paged_%s_%d.cfg" % (e, n), "MC_Paged %s-endian <=%d stores" % (e, n),
               ["Backing.tla", "PagedImpl.tla"])
    return out


# ------------------------------------------------------------------------------------------------
# a recorder that dies
# ------------------------------------------------------------------------------------------------
def redrive(ctx, binname, inputs, tag):
    """Re-drive the inputs of one session (replay mode flushes after every event).  If the recorder
    dies, the call that never returned is appended with res = {"abort": ..}: the trace specification
    rejects it like any other observation (a call that does not return is not an allowed answer)."""
    inp = os.path.join(ctx.work, tag + "_in.ndjson")
    with open(inp, "w") as f:
        for e in inputs:
            f.write(json.dumps(e) + "\n")
    part = ctx.record(binname, ["--mode", "replay", "--in", inp], tag + ".ndjson", allow_fail=True)
    evs = []
    with open(part) as f:
        for line in f:
            try:
                evs.append(json.loads(line))
            except ValueError:
                break
    died = len(evs) < len(inputs)
    if died:
        bad = dict(inputs[len(evs)])
        abort = {"abort": "the recorder process died inside this call (stack overflow / abort)"}
        bad["res"] = [abort] * bad["n"] if bad["ev"] == "scan" else abort
        evs.append(bad)
        with open(part, "w") as f:
            for e in evs:
                f.write(json.dumps(e) + "\n")
        core.log("[%s] recorder died: call #%d (%s) of the session never returned" % (ctx.prop, len(evs), bad["ev"]))
    elif ctx.last_record_rc != 0:
        raise core.ToolError("recorder %s failed (%d): %s" % (binname, ctx.last_record_rc, ctx.last_record_stderr[-2000:]))
    return part, died


def crashed_sessions(ctx, binname, paths):
    """A stack overflow or abort inside falcon kills the recorder (not catchable in-process).  The
    recorder parks the inputs of the session it is driving in `<out>.cur`; if that file is still
    there after the run, that session is re-driven on its own (see redrive) and judged."""
    out = []
    for p in paths:
        if not os.path.exists(p) or (os.path.getsize(p) == 0 and not os.path.exists(p + ".cur")):
            raise core.ToolError("recorder %s produced nothing: %s" % (binname, p))
        if not os.path.exists(p + ".cur"):
            continue
        with open(p + ".cur") as f:
            inputs = json.load(f)
        # the session that was being driven may be partly in the output (possibly with a torn last
        # line): cut the output at the last `begin` (at worst one complete session is not judged)
        with open(p) as f:
            lines = f.readlines()
        last = max([i for i, l in enumerate(lines) if '"ev":"begin"' in l], default=0)
        with open(p, "w") as f:
            f.writelines(lines[:last])
        part, died = redrive(ctx, binname, inputs, "crash%d" % len(out))
        if not died:
            raise core.ToolError("recorder %s died while driving a session that replays cleanly: %s" % (binname, p + ".cur"))
        out.append(part)
    return out


# ------------------------------------------------------------------------------------------------
# trace validation
# ------------------------------------------------------------------------------------------------
def _attach_sessions(ctx, results):
    """A rejection needs its whole session (up to the rejected line) to be replayable.  Sessions are
    attached to the rejections no known finding matches (those get replay files) and to the first
    rejection of every known finding."""
    known = ctx._known()
    seen = set()
    cache = {}
    for r in results:
        for rj in r.rejects:
            hit = next((k["id"] for k in known if ctx._matches(k, rj)), None)
            if hit is not None and hit in seen:
                continue
            seen.add(hit)
            p = os.path.join(core.ROOT, rj["trace"])
            if p not in cache:
                with open(p) as f:
                    cache[p] = [l for l in f if l.strip()]
            lines = cache[p]
            i = rj["line"] - 1
            b = i
            while b > 0 and '"ev":"begin"' not in lines[b]:
                b -= 1
            rj["session"] = [json.loads(l) for l in lines[b:i + 1]]


def validate(ctx, jobs):
    """jobs: [(trace path, number of shards)]; all shards are validated in one parallel batch"""
    shards = []
    paths = [p for p, _ in jobs]
    for p, nshards in jobs:
        shards += ctx.shard(p, nshards, by_session=True)
    results = ctx.tlc_trace_many(TRACE, shards, parallel=min(core.NCPU, 16), env=TLC_ENV if ctx.quick else TLC_ENV_LONG,
                                 timeout=1500, heap="3g")
    _attach_sessions(ctx, results)
    ctx.add_rejects(results)
    kinds = ctx.extra.setdefault("events_by_kind", {})
    loads = 0
    for p in paths:
        with open(p) as f:
            for line in f:
                e = json.loads(line)
                k = e["ev"]
                kinds[k] = kinds.get(k, 0) + 1
                if k == "begin":
                    ctx.traces += 1
                elif k == "scan":
                    loads += e["n"]
                elif k == "load":
                    loads += 1
    ctx.extra["loads_judged"] = ctx.extra.get("loads_judged", 0) + loads
    return results


def _sample(ctx, path, skip_sessions):
    """one real session (the first `skip_sessions` are passed over), truncated to 40 events"""
    cur, n = [], 0
    with open(path) as f:
        for line in f:
            if '"ev":"begin"' in line:
                if cur and n > skip_sessions:
                    break
                cur, n = [], n + 1
            cur.append(json.loads(line))
    ctx.samples.append(cur[:40])


def run(ctx):
    ctx.build(["c08"])
    t0 = time.time()
    hists = mc(ctx)
    t1 = time.time()
    q = ctx.quick
    may_die = {"allow_fail": True}          # a dying recorder is an observation: see crashed_sessions
    # <= 2 operations: every history with both value types; <= 3 stores / clones (thorough): value types
    # alternate with the history index; placements rotate with the history index
    jobs = [("c08", ["--mode", "gen", "--in", h, "--vt", "both" if i == 0 else "alternate"], "gen%d.ndjson" % i, may_die)
            for i, (h, _) in enumerate(hists)]
    nrand, ops = (600, 120) if q else (3000, 300)
    per = 120 if q else 188
    for i in range((nrand + per - 1) // per):
        jobs.append(("c08", ["--mode", "random", "--n", per, "--ops", ops, "--stream", i], "rand%02d.ndjson" % i, may_die))
    paths = ctx.record_many(jobs, parallel=8)
    crashes = crashed_sessions(ctx, "c08", paths)
    gens, rands = paths[:len(hists)], paths[len(hists):]
    t2 = time.time()
    validate(ctx, [(p, 4 if q else 48) for p in gens] + [(p, 1 if q else 2) for p in rands] + [(p, 1) for p in crashes])
    core.log("[%s] mc %.1fs, recording %.1fs, trace validation %.1fs" % (ctx.prop, t1 - t0, t2 - t1, time.time() - t2))
    _sample(ctx, gens[0], 2500)
    _sample(ctx, rands[0], 1)
    ctx.extra["exhaustive"] = True
    ctx.extra["exhaustive_scope"] = (
        "every history of Mem.tla with <= 2 operations out of store(offset 0..5, 1..4 bytes) / set_permissions(3 ranges) / "
        "clone / new%s, both endiannesses, with and without backing, each followed by all loads of 8/16/32/64 bits at "
        "offsets 0..8, permissions at offsets 0..6 and eq of all pairs; replayed for V = il::Constant and il::Expression "
        "with the window across a page boundary at 1024 / 2^32 / 2^63 (rotating)"
        % ("" if q else "; and every history of <= 3 stores / clones (value types alternating)"))
    ctx.extra["generated_histories"] = sum(n for _, n in hists)
    ctx.extra["random_sessions"] = per * ((nrand + per - 1) // per)
    ctx.extra["random_max_ops"] = ops
    ctx.assumptions += [
        "TLC and the CommunityModules Json/IOUtils overrides",
        "harness projection of values / addresses to JSON; addresses are [base, offset] pairs over the 1024-aligned bases "
        "0, 2^32-4096, 2^63-4096 (Backing!Key preserves adjacency and page membership)",
        "il::Expression sessions: stored expressions are scalar-free, their value is IL!Eval (TLC); loaded expressions are "
        "evaluated by executor::eval (bound to IL by C04)",
        "addresses wrapping at 2^64, widths that are not byte multiples and zero-width loads are outside the statement and not generated",
    ]


def replay(ctx, path):
    ctx.build(["c08"])
    with open(path) as f:
        rep = json.load(f)
    rj = rep["rejection"]
    sess = rj.get("session") or [rj["event"]]
    out, _ = redrive(ctx, "c08", sess, "replay")
    r = ctx.tlc_trace(TRACE, out, env=TLC_ENV)
    _attach_sessions(ctx, [r])
    ctx.traces += 1
    ctx.add_rejects(r)


# ------------------------------------------------------------------------------------------------
# binding self-test
# ------------------------------------------------------------------------------------------------
def _flip_value(res):
    """corrupt one recorded load result; returns False when the shape is not a value / none"""
    ok = res.get("ok")
    if not isinstance(ok, dict):
        return False
    if ok.get("k") == "none":
        res["ok"] = {"w": 8, "v": [0]}
    else:
        ok["v"][len(ok["v"]) // 2] ^= 1
    return True


def selftest(ctx):
    """Corrupt recorded results (load / scan values, absent <-> present, permissions, eq), drop events
    (the last store of a generated history; a clone), and expect exactly those to be rejected on top
    of the rejections of the unmodified trace."""
    ctx.build(["c08"])
    hist, _ = mc_histories(ctx, "MC_Mem_2.cfg", "MC_Mem <=2 ops, full alphabet")
    small = os.path.join(ctx.work, "hist_small.ndjson")
    with open(hist) as f, open(small, "w") as g:
        for i, line in enumerate(f):
            if i % 23 == 0:
                g.write(line)
    p1 = ctx.record("c08", ["--mode", "gen", "--in", small], "st_gen.ndjson")
    p2 = ctx.record("c08", ["--mode", "random", "--n", 30, "--ops", 100], "st_rand.ndjson")
    evs = ctx.read_ndjson(p1) + ctx.read_ndjson(p2)
    base_path = os.path.join(ctx.work, "st_base.ndjson")
    with open(base_path, "w") as f:
        for e in evs:
            f.write(json.dumps(e) + "\n")
    r0 = ctx.tlc_trace(TRACE, base_path, env=TLC_ENV)
    rej0 = {rj["line"] for rj in r0.rejects}
    # --- 1. corrupted results: same line numbers.  A rejected mutating event skips the rest of its
    # session, so nothing after it is judged (nor corrupted here).
    MUT = ("new", "clone", "drop", "store", "setperm")
    bad, want1, skipping = set(), set(), False
    for i, e in enumerate(evs):
        ln = i + 1
        k = e["ev"]
        if k == "begin":
            skipping = False
        if skipping:
            continue
        if ln in rej0:
            want1.add(ln)
            skipping = k in MUT
            continue
        hit = False
        if k == "load" and i % 3 == 0:
            hit = _flip_value(e["res"])
        elif k == "scan" and i % 5 == 0:
            hit = _flip_value(e["res"][(i // 5) % len(e["res"])])
        elif k == "perm" and i % 7 == 0 and "ok" in e["res"]:
            e["res"]["ok"] = 9                      # not a permission any call or backing uses
            hit = True
        elif k == "eq" and e["h1"] == e["h2"] and e["res"] == {"ok": True} and i % 2 == 0:
            e["res"]["ok"] = False                  # reflexivity
            hit = True
        elif k == "store" and i % 41 == 0 and e["res"] == {"ok": "unit"}:
            e["res"] = {"err": "Custom"}            # a store that claims to have failed
            hit = True
            skipping = True
        if hit:
            bad.add(ln)
            want1.add(ln)
    mut_path = os.path.join(ctx.work, "st_mut.ndjson")
    with open(mut_path, "w") as f:
        for e in evs:
            f.write(json.dumps(e) + "\n")
    r1 = ctx.tlc_trace(TRACE, mut_path, env=TLC_ENV)
    rej1 = {rj["line"] for rj in r1.rejects}
    ok1 = len(bad) > 20 and rej1 == want1
    core.log("selftest C08 corrupt: %d corrupted, baseline %d, rejected %d, unexpected %d, missed %d" % (
        len(bad), len(rej0), len(rej1), len(rej1 - want1), len(want1 - rej1)))
    # --- 2. dropped events
    evs = ctx.read_ndjson(p1)
    sessions, cur = [], []
    for e in evs:
        if e["ev"] == "begin" and cur:
            sessions.append(cur)
            cur = []
        cur.append(e)
    sessions.append(cur)
    out, expect_scan, expect_dead = [], [], []
    for si, s in enumerate(sessions):
        stores = [i for i, e in enumerate(s) if e["ev"] == "store"]
        clones = [i for i, e in enumerate(s) if e["ev"] == "clone"]
        drop = None
        if si % 3 == 0 and stores:
            drop = stores[-1]
            expect_scan.append((len(out), len(out) + len(s) - 1, s[drop]["h"]))
        elif si % 3 == 1 and clones:
            drop = clones[-1]
            expect_dead.append((len(out), len(out) + len(s) - 1))
        out += [e for i, e in enumerate(s) if i != drop]
    drop_path = os.path.join(ctx.work, "st_drop.ndjson")
    with open(drop_path, "w") as f:
        for e in out:
            f.write(json.dumps(e) + "\n")
    r2 = ctx.tlc_trace(TRACE, drop_path, env=TLC_ENV)
    by_line = {rj["line"]: rj for rj in r2.rejects}
    ok2 = len(expect_scan) > 20 and len(expect_dead) > 3
    for (a, b, h) in expect_scan:      # the 8-bit scan of the handle that lost its last store is rejected
        hit = [ln for ln in by_line if a < ln <= b + 1 and out[ln - 1]["ev"] == "scan" and out[ln - 1]["h"] == h
               and out[ln - 1]["bits"] == 8]
        ok2 = ok2 and bool(hit)
    for (a, b) in expect_dead:         # the first event on the never-created handle is rejected
        hit = [ln for ln in by_line if a < ln <= b + 1 and out[ln - 1].get("h") == 1]
        ok2 = ok2 and bool(hit)
    core.log("selftest C08 drop: %d sessions without their last store, %d without their clone, all detected: %s" % (
        len(expect_scan), len(expect_dead), ok2))
    return ok1 and ok2
