"""C14 - dead-code elimination preserves observable behaviour.

Binding: recorder c14 runs dead_code_elimination on generated functions and exports input P and
output S; X_C14 explores the lock-step product of P and S from the same initial states with the
same call-havoc responses: same path, equal memory after every instruction, equal scalar state
presented to every indirect branch and intrinsic and at every block without successors; S never
faults where P does not; statically: same blocks/edges/instruction positions, every changed
operation is an Assign/Load turned into a Nop.
"""
import json

from checks import xcommon
from vlib import core

LEVEL = "model_checking"


def run(ctx):
    ctx.build(["c14"])
    paths, rs = xcommon.explore(ctx, "c14", "X_C14", 300, 3000, lifted=True)
    killed = kept = 0
    outc = {}
    for p in paths:
        with open(p) as f:
            for q in json.load(f)["progs"]:
                outc[q["outcome"]["k"]] = outc.get(q["outcome"]["k"], 0) + 1
                if "s" in q:
                    for b1, b2 in zip(q["f"]["blocks"], q["s"]["blocks"]):
                        for i1, i2 in zip(b1["ins"], b2["ins"]):
                            if i1["op"] != i2["op"]:
                                killed += 1
                            else:
                                kept += 1
    ctx.extra["instructions_eliminated"] = killed
    ctx.extra["instructions_kept"] = kept
    ctx.extra["dce_outcomes"] = outc
    ctx.assumptions += ["ILSem is the semantics of the IL (bound to the executor by C07)",
                        "executions in which the input function faults are cut",
                        "data scalars sampled, control scalars enumerated; loops bounded by 40 steps"]


def replay(ctx, path):
    xcommon.replay(ctx, path, "c14", "X_C14")


def selftest(ctx):
    """Turn a live assignment of the output into a nop and expect a behavioural report."""
    ctx.build(["c14"])
    p = ctx.record("c14", ["--mode", "random", "--n", 24], "selftest.json")
    with open(p) as f:
        d = json.load(f)
    touched = set()
    for pi, q in enumerate(d["progs"], 1):
        if "s" not in q:
            continue
        for b in q["s"]["blocks"]:
            for i in b["ins"]:
                if i["op"]["k"] == "store":
                    i["op"] = {"k": "nop"}
                    touched.add(pi)
    q2 = p + ".mut"
    with open(q2, "w") as f:
        json.dump(d, f)
    r = ctx.tlc_explore("X_C14", q2)
    got = {rj["prog"] for rj in r.rejects if rj["why"] != "completion"}
    core.log("selftest: killed every store in %d outputs, reports in %d programs, unexpected %s" % (
        len(touched), len(got), sorted(got - touched)))
    return len(got) >= (2 * len(touched)) // 3 and len(got) >= 4 and got <= touched
