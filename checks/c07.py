"""C07 - the concrete executor implements the IL operational semantics exactly.

MC:      MC_ILSem (determinism under exclusive guards, frame property, store/load round trip,
         errors only with a cause) on a small grammar of programs and all initial states.
Binding: recorder c07 steps random well-formed IL programs with the real executor::Driver;
         Trace_C07 carries the model state and requires every step to be an ILSem!Step outcome.
"""
import json

from vlib import core

LEVEL = "model_checking"


def mc(ctx):
    for k in ("store", "load", "assign", "all"):
        ctx.tlc_mc("MC_ILSem", "MC_ILSem_%s.cfg" % k, key="MC_ILSem ops=%s" % k, workers=8, heap="6g")


def validate(ctx, paths, nshards):
    shards = []
    for p in paths:
        shards += ctx.shard(p, nshards, by_session=True)
    rs = ctx.tlc_trace_many("Trace_C07", shards, timeout=1500)
    dropped = sum(1 for r in rs for p in r.prints if '"DROPPED"' in p)
    outcomes, opk, sessions = {}, {}, 0
    for p in paths:
        for e in ctx.read_ndjson(p):
            if e["ev"] == "begin":
                sessions += 1
                for f in e["prog"]:
                    for b in f["blocks"]:
                        for i in b["ins"]:
                            opk[i["op"]["k"]] = opk.get(i["op"]["k"], 0) + 1
                if len(ctx.samples) < 2:
                    ctx.samples.append({"program": e["prog"], "big_endian": e["big"], "initial_scalars": e["sc"]})
            else:
                r = e["res"]
                k = "ok:" + r["ok"]["loc"]["k"] if "ok" in r else ("err:" + r["err"] if "err" in r else "panic")
                outcomes[k] = outcomes.get(k, 0) + 1
    ctx.traces += sessions
    ctx.extra["step_outcomes"] = outcomes
    ctx.extra["operations_in_programs"] = opk
    ctx.extra["sessions_dropped_guards_not_exclusive"] = dropped
    ctx.add_rejects(rs)


def run(ctx):
    ctx.build(["c07"])
    mc(ctx)
    q = ctx.quick
    n = 240 if q else 12000
    jobs = [("c07", ["--mode", "random", "--n", n // 8, "--steps", 100], "rand%d.ndjson" % i,
             {"extra_env": {"VERIF_SEED": str(ctx.seed * 1000 + i)}}) for i in range(8)]
    paths = ctx.record_many(jobs)
    validate(ctx, paths, 2)
    ctx.assumptions += ["TLC 1.8.0 and the CommunityModules Json/IOUtils/Bitwise overrides",
                        "harness projection of programs, locations, scalars and watched memory bytes to JSON",
                        "programs are generated with exclusive and exhaustive guards; a session in which the "
                        "specification finds two enabled edges is dropped (outside the property), not judged"]


def replay(ctx, path):
    ctx.build(["c07"])
    with open(path) as f:
        rep = json.load(f)
    rj = rep["rejection"]
    # the rejected step belongs to a session: find its begin event in the recorded trace
    trace = rj.get("trace")
    begin = None
    if trace:
        with open(trace) as f:
            lines = [l for l in f if l.strip()]
        for l in reversed(lines[:rj["line"]]):
            if '"ev":"begin"' in l:
                begin = l
                break
    if begin is None and "begin" in rj:
        begin = json.dumps(rj["begin"])
    if begin is None:
        raise core.ToolError("replay file has no session")
    inp = ctx.work + "/replay_in.ndjson"
    with open(inp, "w") as f:
        f.write(begin.strip() + "\n")
    out = ctx.record("c07", ["--mode", "replay", "--in", inp], "replay.ndjson")
    r = ctx.tlc_trace("Trace_C07", out)
    ctx.traces += 1
    ctx.add_rejects(r)


def selftest(ctx):
    ctx.build(["c07"])
    p = ctx.record("c07", ["--mode", "random", "--n", 40, "--steps", 60], "selftest.ndjson")
    evs = ctx.read_ndjson(p)
    # corrupt: one scalar value / one location / drop one event, each in a different session
    bad_sessions, sess, mutated = set(), 0, 0
    out = []
    done_in_session = False
    for i, e in enumerate(evs):
        if e["ev"] == "begin":
            sess += 1
            done_in_session = False
            out.append(e)
            continue
        r = e["res"]
        if not done_in_session and "ok" in r and sess % 2 == 0 and i % 5 == 0:
            kind = sess % 6
            if kind == 0 and r["ok"]["sc"]:
                r["ok"]["sc"][0]["v"][0] ^= 1
                done_in_session = True
            elif kind == 2 and r["ok"]["loc"]["k"] == "ins":
                r["ok"]["loc"]["b"] += 1
                done_in_session = True
            elif kind == 4 and r["ok"]["loc"]["k"] == "ins":
                done_in_session = True
                bad_sessions.add(sess)
                mutated += 1
                continue  # drop the event
            if done_in_session:
                bad_sessions.add(sess)
                mutated += 1
        out.append(e)
    q = p + ".mut"
    with open(q, "w") as f:
        for e in out:
            f.write(json.dumps(e) + "\n")
    r = ctx.tlc_trace("Trace_C07", q)
    # map rejected lines to sessions
    sess_of_line, s = {}, 0
    for i, e in enumerate(out):
        if e["ev"] == "begin":
            s += 1
        sess_of_line[i + 1] = s
    got = {sess_of_line[rj["line"]] for rj in r.rejects}
    core.log("selftest: mutated %d sessions, rejected sessions %d, unexpected %s, missed %s" % (
        len(bad_sessions), len(got), sorted(got - bad_sessions), sorted(bad_sessions - got)))
    return len(bad_sessions) >= 5 and got == bad_sessions
