"""C09 - the fixed-point engine returns the least solution of the data-flow equations.

MC:      MC_FixedPoint (spec/FixedPoint.tla): every location graph on <= 3 locations x gen/kill,
         monotone flat-lattice and arbitrary (non-monotone) transfer tables x force x EVERY schedule
         of chaotic iteration: below the Kleene least solution, Done = least solution on exactly the
         reachable locations, Done is never a non-solution, step bound, termination, and the judge
         used on the real solver accepts every outcome of the model.
Binding: recorder c09 hands falcon's fixed_point_{forward,backward}[_options] a table-driven analysis
         over small finite lattices and logs the location graph (falcon's own forward()/backward()),
         every trans/join call and the returned map or error.  Trace_C09 replays each trans call as a
         step of chaotic iteration and judges the outcome (FixedPoint!JudgeM): monotone table =>
         Ok with the least solution on exactly the reachable locations (or FixedPointMaxSteps after
         at least `budget` calls, if the budget does not cover every schedule); otherwise an error
         or a (post-)solution; a hang / panic never.
"""
import json
import os
import re

from vlib import core

LEVEL = "model_checking"

_STAT = re.compile(r'^<<"STAT", "(.*)">>\s*$')


def mc(ctx):
    ctx.tlc_mc("MC_FixedPoint", "MC_FixedPoint_gk2.cfg", key="MC_FixedPoint P({a,b}) gen/kill, graphs<=2, force both")
    if ctx.quick:
        ctx.tlc_mc("MC_FixedPoint", "MC_FixedPoint_any2q.cfg", key="MC_FixedPoint chain3 all tables n=1 / sample n=2")
    else:
        ctx.tlc_mc("MC_FixedPoint", "MC_FixedPoint_gk3.cfg", key="MC_FixedPoint 1-bit gen/kill, all graphs on 3 locations")
        ctx.tlc_mc("MC_FixedPoint", "MC_FixedPoint_flat2.cfg", key="MC_FixedPoint flat2 all monotone tables, graphs<=2")
        if os.environ.get("VERIF_C09_DEEP"):     # 444 k states, several minutes: optional
            ctx.tlc_mc("MC_FixedPoint", "MC_FixedPoint_flat3s.cfg", key="MC_FixedPoint flat2 sample family, all graphs on 3 locations")
        ctx.tlc_mc("MC_FixedPoint", "MC_FixedPoint_any2.cfg", key="MC_FixedPoint chain3 ALL tables (non-monotone), graphs<=2, force both")


def _stats(r):
    out = []
    for line in r.prints:
        m = _STAT.match(line)
        if m:
            out.append(json.loads(core._unescape_tla_string(m.group(1))))
    return out


def _sessions(path):
    """[(first line number (1-based), begin event, [events])]"""
    out = []
    with open(path) as f:
        for i, line in enumerate(f, 1):
            if not line.strip():
                continue
            e = json.loads(line)
            if e["ev"] == "begin":
                out.append((i, e, []))
            elif out:
                out[-1][2].append(e)
    return out


def _brief(b):
    return {k: b[k] for k in ("fn", "lat", "tab", "dir", "api", "force", "budget", "kind", "n", "names", "pred", "succ", "start")}


def validate(ctx, shards, count=True):
    """Runs Trace_C09 over the shards; attaches the session (the replayable inputs) to every
    rejection; returns per-session STAT records keyed by (shard, line of the result event)."""
    results = ctx.tlc_trace_many("Trace_C09", shards, parallel=min(core.NCPU, 16), timeout=1500, heap="3g")
    agg = ctx.extra.setdefault("sessions_by_call", {})
    outcomes = ctx.extra.setdefault("outcomes", {})
    classes = ctx.extra.setdefault("table_class_by_spec", {})
    tot = ctx.extra.setdefault("totals", {"trans_calls": 0, "join_calls": 0, "schedule_drift_sessions": 0,
                                          "schedule_drift_calls": 0, "revisit_steps": 0,
                                          "sessions_with_reiteration": 0, "model_tracked_result": 0,
                                          "max_locations": 0})
    all_stats = {}
    for shard, r in zip(shards, results):
        sess = _sessions(shard)
        stats = {s["line"]: s for s in _stats(r)}
        # rejections: attach the session's inputs (replay needs them, known-finding predicates use them)
        for rj in r.rejects:
            ln = rj.get("line", 0)
            owner = None
            for (first, b, evs) in sess:
                if first <= ln:
                    owner = (first, b, evs)
            if owner:
                rj["session"] = _brief(owner[1])
                rj["session_events"] = len(owner[2])
            ctx.reject(rj)
        for (first, b, evs) in sess:
            res = evs[-1]
            st = stats.get(first + len(evs))
            if st is None:
                # no verdict line: legitimate only if the session was rejected before its result
                if any(first <= rj.get("line", 0) < first + len(evs) for rj in r.rejects):
                    if count:
                        ctx.traces += 1
                    continue
                raise core.ToolError("no STAT for the session at line %d of %s" % (first, shard))
            all_stats[(shard, first)] = st
            if not count:
                continue
            ctx.traces += 1
            key = "%s/%s%s" % (b["dir"], b["api"], "/force" if b["force"] else "")
            agg[key] = agg.get(key, 0) + 1
            rr = res["res"]
            kind = "ok" if "ok" in rr else rr.get("err", "panic" if "panic" in rr else "timeout")
            outcomes[kind] = outcomes.get(kind, 0) + 1
            classes[st["mono"]] = classes.get(st["mono"], 0) + 1
            trans = [e for e in evs if e["ev"] == "trans"]
            tot["trans_calls"] += len(trans)
            tot["join_calls"] += sum(1 for e in evs if e["ev"] == "join")
            tot["schedule_drift_calls"] += st["drift"]
            tot["schedule_drift_sessions"] += 1 if st["drift"] else 0
            tot["revisit_steps"] += st["revisits"]
            tot["model_tracked_result"] += 1 if (st["tracked"] and "ok" in rr and st["drift"] == 0) else 0
            tot["max_locations"] = max(tot["max_locations"], b["n"])
            if len(set(e["l"] for e in trans)) < len(trans):
                tot["sessions_with_reiteration"] += 1
            if len(ctx.samples) < 3 and "ok" in rr and st["mono"] == "mono" and 12 <= len(evs) <= 40 and \
                    len(set(e["l"] for e in trans)) < len(trans):
                ctx.samples.append({"begin": _brief(b), "events": evs, "spec": st})
    ctx.extra["schedule_drift"] = tot["schedule_drift_calls"]
    return all_stats


def run(ctx):
    ctx.build(["c09"])
    mc(ctx)
    q = ctx.quick
    streams = 4 if q else 16
    per = 600 if q else 5000
    jobs = [("c09", ["--mode", "corners", "--reps", 2 if q else 12], "corners.ndjson")]
    jobs += [("c09", ["--mode", "random", "--n", per, "--stream", k], "rand%02d.ndjson" % k) for k in range(streams)]
    paths = ctx.record_many(jobs, parallel=4 if q else 16)
    shards = []
    for p in paths:
        shards += ctx.shard(p, 1 if q else 3, by_session=True)
    validate(ctx, shards)
    ctx.extra["generator"] = {
        "functions": "1..5 blocks of 0..3 instructions, <= 9 edges (sparse random / chain with back edges and self-loops / "
                     "cycle with chords / forward DAG with several exits), entry and exit anywhere or absent; plus 18 hand-made corner shapes",
        "lattices": ["pow2", "flat2", "pow3", "flat3", "chain3"],
        "tables": "gen/kill, constant-propagation-like flat rows, monotone closures of sparse random maps, perturbed monotone, fully random",
        "calls": "fixed_point_forward, fixed_point_forward_options(force, budget 0..50 / 400), fixed_point_backward, fixed_point_backward_options(force)",
    }
    ctx.assumptions += [
        "TLC 1.8.0 and the CommunityModules Json/IOUtils overrides",
        "the location graph handed to TLC is what falcon's RefProgramLocation::forward/backward return (their correctness is C18)",
        "the recorder's lattice order/join and table lookup are re-checked by Trace_C09 (join = lattice join, trans = table row)",
        "a solver call is declared non-terminating after 1000 trans calls (more than 2x the bound of any de-duplicating schedule, checked per session)",
        "bounded: graphs of <= 24 locations, lattices of height <= 3; MC exhaustive for <= 3 locations only",
    ]


def replay(ctx, path):
    ctx.build(["c09"])
    with open(path) as f:
        rep = json.load(f)
    rj = rep["rejection"]
    sess = rj.get("session")
    if sess is None:
        raise core.ToolError("replay file has no session")
    inp = ctx.work + "/replay_in.ndjson"
    with open(inp, "w") as f:
        f.write(json.dumps(dict(sess, ev="begin", id=0)) + "\n")
    out = ctx.record("c09", ["--mode", "replay", "--in", inp], "replay.ndjson")
    validate(ctx, [out])


def selftest(ctx):
    """Binding self-test: corrupt recorded sessions and expect exactly the corrupted ones to be
    rejected (outcome corruptions) / counted as schedule drift (call-sequence corruptions)."""
    ctx.build(["c09"])
    p = ctx.record("c09", ["--mode", "random", "--n", 500, "--stream", 77], "selftest.ndjson")
    base = validate(ctx, [p], count=False)
    base_rej = {rj.get("line") for rj in ctx.rejections}
    sess = _sessions(p)
    expect_reject, expect_drift = set(), set()
    lines = []
    kinds = {}
    for k, (first, b, evs) in enumerate(sess):
        st = base[(p, first)]
        evs = [json.loads(json.dumps(e)) for e in evs]
        res = evs[-1]["res"]
        trans_ix = [i for i, e in enumerate(evs) if e["ev"] == "trans"]
        clean = (first + len(evs)) not in base_rej
        mut = None
        if clean and st["mono"] == "mono" and "ok" in res and res["ok"]:
            m = k % 6
            if m == 0:      # flip one returned state
                res["ok"][0][1] = (res["ok"][0][1] + 1) % 3
                mut = "value"
            elif m == 1:    # lose one location of the returned map
                res["ok"].pop()
                mut = "domain-"
            elif m == 2:    # a state for a location the function does not reach / have
                have = {x[0] for x in res["ok"]}
                extra = [x for x in range(1, b["n"] + 1) if x not in have]
                if extra:
                    res["ok"].append([extra[0], 0])
                    mut = "domain+"
            elif m == 3:    # an ordering error for a monotone analysis
                evs[-1]["res"] = {"err": "FixedPointOrdering"}
                mut = "err-for-monotone"
            elif m == 4 and len(trans_ix) >= 3:   # drop a call: drift, outcome still right
                del evs[trans_ix[1]]
                mut = "drop-call"
            elif m == 5 and len(trans_ix) >= 2 and evs[trans_ix[-1]]["in"] != -1:  # wrong input: drift only
                e = evs[trans_ix[-1]]
                e["in"] = -1
                e["out"] = b["tab"][e["l"] - 1][0]
                mut = "wrong-input"
        elif clean and res.get("err") == "FixedPointMaxSteps" and len(trans_ix) >= 2 and b["budget"] >= 1:
            # give up before the budget is used
            keep = b["budget"] - 1
            drop = set(trans_ix[keep:])
            evs = [e for i, e in enumerate(evs) if i not in drop]
            mut = "early-maxsteps"
        elif clean and st["mono"] == "nonmono" and "ok" in res and res["ok"] and not b["force"] and k % 2 == 0:
            # a non-solution for a non-monotone analysis: change the state of a location whose own
            # equation does not depend on itself is not guaranteed; use panic instead
            evs[-1]["res"] = {"panic": "injected"}
            mut = "panic"
        new_first = len(lines) + 1
        lines.append(json.dumps(b))
        lines += [json.dumps(e) for e in evs]
        if mut in ("value", "domain-", "domain+", "err-for-monotone", "early-maxsteps", "panic"):
            expect_reject.add(new_first + len(evs))
        if mut in ("drop-call", "wrong-input"):
            expect_drift.add(new_first + len(evs))
        if (first + len(evs)) in base_rej:
            expect_reject.add(new_first + len(evs))     # rejected before (known finding): still rejected
        if mut:
            kinds[mut] = kinds.get(mut, 0) + 1
    q = p + ".mut"
    with open(q, "w") as f:
        f.write("\n".join(lines) + "\n")
    ctx.rejections = []
    stats = validate(ctx, [q], count=False)
    got = {rj.get("line") for rj in ctx.rejections}
    drift = {s["line"] for s in stats.values() if s["drift"] > 0}
    core.log("selftest: mutations %s; expected rejects %d got %d (unexpected %d, missed %d); expected drift %d got %d" % (
        kinds, len(expect_reject), len(got), len(got - expect_reject), len(expect_reject - got), len(expect_drift), len(drift)))
    # a dropped call need not derail the replay (the next calls may still be steps of chaotic
    # iteration), a wrong input always does; never may a call-sequence corruption alone be a rejection
    return (len(expect_reject) >= 30 and got == expect_reject and len(expect_drift) >= 5
            and drift <= expect_drift and len(drift) * 10 >= len(expect_drift) * 7
            and all(kinds.get(k, 0) > 0 for k in ("value", "domain-", "domain+", "err-for-monotone", "drop-call",
                                                  "wrong-input", "early-maxsteps", "panic")))
