"""C11 - graph algorithms equal their textbook definitions; edits keep the four views consistent.

MC:      MC_Graph: the edit machine of Graph.tla over the ids {1,4,7,9} keeps ViewsConsistent
         (67 689 states = every labelled digraph on <= 4 ids); on each of those graphs and every
         root every definition is compared with a second, independent formulation (DefsAgree);
         falcon's unit-test expectations are ASSUMEs.
Binding: recorder c11 drives falcon::graph::Graph (all digraphs on <= 3 / <= 4 vertices with
         every root, random graphs of 5..9 vertices, random edit histories of <= 80 operations)
         and logs results + the four views read through the public accessors; Trace_C11 steps the
         edit machine and evaluates the definitions.
"""
import json
import os

from vlib import core

LEVEL = "model_checking"
MODULE = "Trace_C11"
INPUT_KEYS = {"begin": ("ev", "kind", "pool", "V", "E"), "op": ("ev", "op", "v", "h", "t", "r"),
              "query": ("ev", "root"), "gquery": ("ev",)}


def mc(ctx):
    # per-action counts (-coverage) only for the cheap edit-machine run
    ctx.tlc_mc("MC_Graph", "MC_Graph_edit.cfg", key="MC_Graph edit machine, ids {1,4,7,9}: ViewsConsistent",
               coverage=True)
    if ctx.quick:
        ctx.tlc_mc("MC_Graph", "MC_Graph_small.cfg", key="MC_Graph ids {1,4,7}: ViewsConsistent + DefsAgree")
    else:
        ctx.tlc_mc("MC_Graph", "MC_Graph.cfg", key="MC_Graph ids {1,4,7,9}: ViewsConsistent + DefsAgree", timeout=3000)


def inputs_of(ev):
    """the part of a recorded event that is an input (what replay needs)"""
    return {k: ev[k] for k in INPUT_KEYS.get(ev.get("ev"), ("ev",)) if k in ev}


def attach_sessions(ctx, results, only_unmatched=True):
    """For rejections that are going to be reported, store the inputs of their session up to the
    rejected event (begin + edits + the event itself): that is what --replay re-drives."""
    known = ctx._known()
    by_trace = {}
    sampled = set()
    for r in results:
        for rj in r.rejects:
            hit = next((k["id"] for k in known if ctx._matches(k, rj)), None)
            if hit is not None and only_unmatched:
                if hit in sampled:
                    continue
                sampled.add(hit)            # one replayable example per known finding met
            by_trace.setdefault(rj["trace"], []).append(rj)
    for trace, rjs in by_trace.items():
        with open(os.path.join(core.ROOT, trace)) as f:
            lines = [l for l in f if l.strip()]
        for rj in rjs:
            ln = rj["line"]
            b = ln
            while b > 1 and '"ev":"begin"' not in lines[b - 1]:
                b -= 1
            sess = []
            for i in range(b, ln + 1):
                ev = json.loads(lines[i - 1])
                if i == ln or ev["ev"] in ("begin", "op"):
                    sess.append(inputs_of(ev))
            rj["session"] = sess


def stats(ctx, paths):
    kinds, ops, qn = {}, {}, {"roots": 0, "roots_with_unreachable_vertices": 0, "graphs_with_cycle": 0,
                              "irreducible": 0, "with_loops": 0, "max_vertices": 0}
    samples = {}            # one recorded session (inputs + first results) per kind
    for p in paths:
        cur = None
        with open(p) as f:
            for line in f:
                e = json.loads(line)
                ev = e["ev"]
                if ev == "begin":
                    ctx.traces += 1
                    k = e["kind"]
                    kinds[k] = kinds.get(k, 0) + 1
                    cur = None
                    if k not in samples and (k != "exhaustive" or len(e["E"]) >= 4):
                        cur = samples[k] = [inputs_of(e)]
                elif ev == "op":
                    k = e["op"] + ":" + ("ok" if "ok" in e["res"] else "err" if "err" in e["res"] else "other")
                    ops[k] = ops.get(k, 0) + 1
                    if cur is not None and len(cur) < 12:
                        o = inputs_of(e)
                        o["res"] = e["res"]
                        cur.append(o)
                elif ev == "query":
                    qn["roots"] += 1
                    qn["max_vertices"] = max(qn["max_vertices"], len(e["V"]))
                    if "ok" in e["reach"] and len(e["reach"]["ok"]) < len(e["V"]):
                        qn["roots_with_unreachable_vertices"] += 1
                    if e["red"].get("ok") is False:
                        qn["irreducible"] += 1
                    if e["loops"].get("ok"):
                        qn["with_loops"] += 1
                    if cur is not None and len(cur) < 14 and not any(x.get("ev") == "query" for x in cur):
                        cur.append(e)
                elif ev == "gquery":
                    if "err" in e["topo"]:
                        qn["graphs_with_cycle"] += 1
                    if cur is not None and len(cur) < 14 and not any(x.get("ev") == "gquery" for x in cur):
                        cur.append(e)
    ctx.extra["sessions_by_kind"] = kinds
    ctx.extra["edit_operations"] = ops
    ctx.extra["queries"] = qn
    for k in ("edits", "random", "exhaustive"):
        if k in samples:
            ctx.samples.append(samples[k])


def run(ctx):
    ctx.build(["c11"])
    mc(ctx)
    q = ctx.quick
    if q:
        jobs = [("c11", ["--mode", "exhaustive", "--maxn", 3], "exh.ndjson")]
    else:
        jobs = [("c11", ["--mode", "exhaustive", "--maxn", 4, "--part", i, "--parts", 16], "exh%02d.ndjson" % i)
                for i in range(16)]
    njobs = len(jobs)
    jobs += [("c11", ["--mode", "random", "--n", 500 if q else 6000], "random.ndjson"),
             ("c11", ["--mode", "edits", "--n", 250 if q else 3000], "edits.ndjson")]
    paths = ctx.record_many(jobs, parallel=4 if q else 16)
    if q:
        shards = []
        shards += ctx.shard(paths[0], 1, by_session=True)
        shards += ctx.shard(paths[1], 2, by_session=True)
        shards += ctx.shard(paths[2], 1, by_session=True)
        results = ctx.tlc_trace_many(MODULE, shards, timeout=1200, heap="2g", parallel=4)
    else:
        shards = list(paths[:njobs])
        shards += ctx.shard(paths[njobs], 32, by_session=True)
        shards += ctx.shard(paths[njobs + 1], 8, by_session=True)
        results = ctx.tlc_trace_many(MODULE, shards, timeout=3000, heap="3g", parallel=16)
    attach_sessions(ctx, results)
    ctx.add_rejects(results)
    stats(ctx, paths)
    ctx.extra["exhaustive"] = True
    ctx.extra["exhaustive_scope"] = ("every labelled digraph with self-loops on the first n of the ids 1,4,7,9 for "
                                     "n <= %d, every vertex as root, all 18 public algorithms" % (3 if q else 4))
    ctx.extra["bounds"] = {"random_graph_vertices": "5..9", "edit_history_ops": "10..80",
                           "ids": "0..15, 100, 255, 256, 65535, 2^20, 2^31-1"}
    ctx.assumptions += ["TLC and the CommunityModules Json/IOUtils overrides",
                        "harness projection of graph results to JSON (sets are sorted before logging)",
                        "vertex/edge payloads are NullVertex/NullEdge: only the index structure is observed"]


def replay(ctx, path):
    ctx.build(["c11"])
    with open(path) as f:
        rep = json.load(f)
    rj = rep["rejection"]
    sess = rj.get("session")
    if not sess:
        raise core.ToolError("replay file has no session inputs")
    inp = os.path.join(ctx.work, "replay_in.ndjson")
    with open(inp, "w") as f:
        for e in sess:
            f.write(json.dumps(e) + "\n")
    out = ctx.record("c11", ["--mode", "replay", "--in", inp], "replay.ndjson")
    r = ctx.tlc_trace(MODULE, out)
    attach_sessions(ctx, [r], only_unmatched=False)
    ctx.traces += 1
    ctx.add_rejects(r)


# ------------------------------------------------------------------------------------------------
# binding self-test
# ------------------------------------------------------------------------------------------------
def _corrupt_query(e, i):
    """Change one result field of a query event so that it certainly violates its definition.
    Returns the name of the corrupted field or None."""
    def ok(f):
        return isinstance(e.get(f), dict) and "ok" in e[f]
    order = ["reach", "pre", "post", "idom", "dom", "df", "red", "acy", "loops", "domtree", "acyclic", "dfstree",
             "unreach", "looptree"]
    for k in range(len(order)):
        f = order[(i + k) % len(order)]
        if not ok(f):
            continue
        v = e[f]["ok"]
        root = e["root"]
        if f in ("reach",):
            v.remove(root)                                  # the root is always reachable
        elif f == "unreach":
            v.append(root)                                  # ... and never unreachable
        elif f == "pre":
            if len(v) >= 2:
                v.pop()                                     # incomplete
            else:
                v.append(root)                              # repeated vertex
        elif f == "post":
            v.insert(0, root)                               # the root finishes last, once
        elif f == "idom":
            if v:
                v[0][1] = v[0][0]                           # nobody is its own immediate dominator
            else:
                v.append([root, root])                      # the root has none
        elif f == "dom":
            row = next(r for r in v if r[0] == root)
            row[1] = []                                     # the root dominates itself
        elif f == "df":
            row = next(r for r in v if r[0] == root)
            if root in row[1]:
                row[1].remove(root)
            else:
                row[1].append(root)
        elif f in ("red", "acy"):
            e[f]["ok"] = not v
        elif f == "loops":
            if v:
                v.pop()
            else:
                v.append([root, [root, 424242]])            # not a vertex
        elif f == "looptree":
            v["E"].append([root, root])                     # nothing nests itself
        elif f == "domtree":
            v["E"].append([root, root])
        elif f == "acyclic":
            v["E"].append([424242, root])                   # not an edge of the graph
        elif f == "dfstree":
            v["V"].append(424242)
        return f
    return None


def _corrupt_op(e, i):
    w = e["views"].get("ok")
    if w is None:
        return None
    k = i % 6
    if k == 0:
        e["res"] = {"err": "X"} if "ok" in e["res"] else {"ok": 0}
        return "res"
    if k == 1:
        w["nv"] += 1
        return "nv"
    if k == 2 and w["E"]:
        w["E"].pop()
        return "E"
    if k == 3 and w["V"]:
        w["V"].pop()
        return "V"
    if k == 4:
        for a in w["acc"]:
            if "ok" in a["pred"] and a["pred"]["ok"]:
                a["pred"]["ok"].pop()                       # a predecessor entry goes missing
                return "acc.pred"
    for a in w["acc"]:
        if "err" in a["ein"]:
            a["ein"] = {"ok": []}                           # stale key: edges_in of a non-vertex answers
            return "acc.ein"
    w["canon"] = {"ok": False}
    return "canon"


def selftest(ctx):
    """Corrupt recorded fields / drop events and expect exactly those events (plus whatever the
    unchanged trace already had rejected, i.e. known findings) to be rejected."""
    ctx.build(["c11"])
    paths = ctx.record_many([("c11", ["--mode", "exhaustive", "--maxn", 2], "st_exh.ndjson"),
                             ("c11", ["--mode", "random", "--n", 25], "st_random.ndjson"),
                             ("c11", ["--mode", "edits", "--n", 25], "st_edits.ndjson")], parallel=3)
    evs = []
    for p in paths:
        evs += ctx.read_ndjson(p)
    base_path = os.path.join(ctx.work, "st_base.ndjson")
    with open(base_path, "w") as f:
        for e in evs:
            f.write(json.dumps(e) + "\n")
    # session boundaries (1-based line numbers)
    sess_of, s = [], 0
    for e in evs:
        if e["ev"] == "begin":
            s += 1
        sess_of.append(s)
    bad, fields = {}, {}
    for i, e in enumerate(evs):
        ln = i + 1
        f = None
        if e["ev"] == "query" and i % 5 == 2:
            f = _corrupt_query(e, i)
        elif e["ev"] == "op" and i % 37 == 11:
            f = _corrupt_op(e, i)
        elif e["ev"] == "gquery" and i % 3 == 1:
            if "ok" in e["topo"]:
                if e["topo"]["ok"]:
                    e["topo"]["ok"].pop()
                    f = "topo"
            else:
                e["topo"] = {"ok": []}
                f = "topo"
        elif e["ev"] == "gquery" and i % 3 == 2 and e["tpred"].get("ok"):
            e["tpred"]["ok"][0][1].append(424242)
            f = "tpred"
        elif e["ev"] == "begin" and i % 29 == 7 and "ok" in e["views"]:
            e["views"]["ok"]["hase"].append([424242, 424242])
            f = "hase"
        if f:
            bad[ln] = e["ev"]
            fields[e["ev"] + ":" + f] = fields.get(e["ev"] + ":" + f, 0) + 1
    mut_path = os.path.join(ctx.work, "st_mut.ndjson")
    with open(mut_path, "w") as f:
        for e in evs:
            f.write(json.dumps(e) + "\n")
    # dropped events: an effective edit that is directly followed by an insertion disappears (an
    # insertion cannot hide the difference; a removal could, e.g. of the vertex just inserted)
    orig = ctx.read_ndjson(base_path)
    drop, keep, expect_drop, dropped_sessions = [], [], set(), set()
    for i, e in enumerate(orig):
        if (e["ev"] == "op" and "ok" in e["res"] and e["op"] != "remove_unreachable" and i + 1 < len(orig)
                and orig[i + 1]["ev"] == "op" and orig[i + 1]["op"] in ("insert_vertex", "insert_edge")
                and sess_of[i] not in dropped_sessions and i % 3 == 0):
            dropped_sessions.add(sess_of[i])
            drop.append(i)
            expect_drop.add(len(keep) + 1)      # the line the following edit gets
        else:
            keep.append(e)
    drop_path = os.path.join(ctx.work, "st_drop.ndjson")
    with open(drop_path, "w") as f:
        for e in keep:
            f.write(json.dumps(e) + "\n")
    rb, rm, rd = ctx.tlc_trace_many(MODULE, [base_path, mut_path, drop_path], parallel=3)
    base = {rj["line"] for rj in rb.rejects}
    known = ctx._known()
    unknown_base = [rj for rj in rb.rejects if not any(ctx._matches(k, rj) for k in known)]
    # expected rejections of the corrupted trace
    first_cut = {}
    for ln, kind in bad.items():
        if kind in ("op", "begin"):
            s = sess_of[ln - 1]
            first_cut[s] = min(first_cut.get(s, ln), ln)
    expected = set()
    for ln in set(bad) | base:
        cut = first_cut.get(sess_of[ln - 1])
        if cut is None or ln <= cut:
            expected.add(ln)
    got = {rj["line"] for rj in rm.rejects}
    # dropped edits: the next edit must be rejected; lines before it keep their baseline verdict
    got_d = {rj["line"] for rj in rd.rejects}
    missed_drop = expect_drop - got_d
    core.log("selftest: %d events, baseline rejections %d (unknown: %d); corrupted %d %s -> rejected %d, "
             "unexpected %d, missed %d; dropped %d edits -> missed %d" % (
                 len(evs), len(base), len(unknown_base), len(bad), json.dumps(fields, sort_keys=True), len(got),
                 len(got - expected), len(expected - got), len(drop), len(missed_drop)))
    if got - expected:
        core.log("unexpected: %s" % sorted(got - expected)[:10])
    if expected - got:
        core.log("missed: %s" % [(ln, bad.get(ln)) for ln in sorted(expected - got)[:10]])
    return (len(bad) > 40 and got == expected and len(drop) >= 5 and not missed_drop and not unknown_base)
