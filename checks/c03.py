"""C03 - the AArch64 lifter agrees with the Arm architecture pseudocode.

MC:      MC_A64 (AddWithCarry/NZCV = the manual's integer definitions, SUBS = ADDS with inverted
         operand and carry-in, compare lemmas tying NZCV to ConditionHolds; ExtendReg/ShiftReg bit by
         bit; DecodeBitMasks for all (N, imms, immr); field extraction, SImm, data-window round trip)
Binding: recorder c03 builds instruction words from field templates, lifts each with the real
         translator (AArch64 / AArch64Eb), runs the lifted IL with the real executor::Driver from a
         logged initial X0..X30/SP/NZCV/V0..V31/data window until control reaches another native
         address; Trace_C03 decodes the raw word itself (spec/A64.tla), executes the Arm ARM
         pseudocode and compares registers, flags, every window byte, the next pc, and that no page
         outside the window was written.
Corpus:  the expectations hard-coded in the repository's own aarch64 tests (corpus/c03) are replayed
         through the specification as an independent sanity check of the transcription.
"""
import json
import os
import re

from vlib import core

LEVEL = "model_checking"

CORPUS = os.path.join(core.ROOT, "corpus", "c03", "repo_tests.ndjson")
_TAGS = re.compile(r'"([^"]*)"')


def mc(ctx):
    # the four configurations are independent: run them side by side (4 workers each)
    import concurrent.futures
    jobs = [("MC_A64_flags.cfg", "MC_A64 NZCV lemmas w<=6 LimbBits=3"),
            ("MC_A64_ext.cfg", "MC_A64 ExtendReg/ShiftReg bitwise N=32,64"),
            ("MC_A64_mask.cfg", "MC_A64 DecodeBitMasks all N:imms:immr"),
            ("MC_A64_field.cfg", "MC_A64 fields, SImm, data window")]
    with concurrent.futures.ThreadPoolExecutor(len(jobs)) as ex:
        futs = [ex.submit(ctx.tlc_mc, "MC_A64", cfg, key=key, workers=4, heap="4g") for cfg, key in jobs]
        for f in futs:
            f.result()


def _word(e):
    return "%08x" % int.from_bytes(bytes(e["word"]), "little")


# ---------------------------------------------------------------------------------------------
# decoder cross-check (never an oracle for the code): the class / mnemonic / register width the
# SPECIFICATION decoded for every judged word is compared with llvm-mc's disassembly of the same
# word.  A disagreement means A64.tla (or llvm) mis-decodes: that is a tool error to be triaged by
# hand, never a verdict, and it never suppresses a rejection.  Skipped when llvm-mc is missing.
# ---------------------------------------------------------------------------------------------
_ALLOWED = {
    ("addsub", "ADD"): {"add", "mov"}, ("addsub", "ADDS"): {"adds", "cmn"},
    ("addsub", "SUB"): {"sub", "neg"}, ("addsub", "SUBS"): {"subs", "cmp", "negs"},
    ("movewide", "MOVZ"): {"mov", "movz"}, ("movewide", "MOVN"): {"mov", "movn"}, ("movewide", "MOVK"): {"movk"},
    ("logical", "ORR"): {"orr", "mov"}, ("logical", "AND"): {"and"}, ("logical", "EOR"): {"eor"},
    ("logical", "ANDS"): {"ands", "tst"}, ("logical", "BIC"): {"bic"}, ("logical", "ORN"): {"orn", "mvn"},
    ("logical", "EON"): {"eon"}, ("logical", "BICS"): {"bics"},
    ("simd_three_same", "ADD"): {"add"}, ("simd_three_same", "SUB"): {"sub"}, ("simd_three_same", "ORR"): {"orr", "mov"},
    ("simd_copy", "INS-element"): {"mov", "ins"}, ("simd_copy", "INS-general"): {"mov", "ins"},
    ("simd_copy", "UMOV"): {"mov", "umov"}, ("simd_copy", "DUP-scalar"): {"mov", "dup"},
}


def _llvm_family(t):
    """mnemonics llvm-mc may print for the specification's tags t (None: not covered by the table)"""
    c, m = t[0], t[1] if len(t) > 1 else ""
    key = ("addsub" if c.startswith("addsub") else "logical" if c.startswith("logical") else c, m)
    if key in _ALLOWED:
        return _ALLOWED[key], None
    if c in ("branch_imm", "compare_branch", "test_branch", "branch_reg"):
        return {m.lower()}, None
    if c == "branch_cond":
        return {m.lower().replace("b.cs", "b.hs").replace("b.cc", "b.lo")}, None
    if c == "hint":
        return {"nop"}, None
    if c == "sve_prefetch":
        return {m.lower()}, None
    name = [x for x in t if re.match(r"(LDRS?|STR|LDP|STP|LDPSW|prfm)", x)]
    nm = name[0] if name else "?"
    mm = re.match(r"(LDRS|LDR|STR)(-fp)?(\d+)(-to(\d+))?", nm)
    if mm:
        kind, fp, ds, _, to = mm.groups()
        ds = int(ds)
        suf = "" if fp or ds >= 32 else {8: "b", 16: "h"}[ds]
        if kind == "LDRS":
            suf = "s" + {8: "b", 16: "h", 32: "w"}[ds]
        fam = {x + suf for x in (("str", "stur", "stlr", "stllr", "stlur") if kind == "STR" else
                                 ("ldr", "ldur", "ldar", "ldlar", "ldapur"))}
        reg = {8: "b", 16: "h", 32: "s", 64: "d", 128: "q"}[ds] if fp else (
            ("x" if ds == 64 else "w") if kind == "STR" else ("x" if int(to) == 64 else "w"))
        return fam, reg
    if nm.startswith("LDPSW"):
        return {"ldpsw"}, None
    if nm.startswith("LDP"):
        return {"ldp", "ldnp"}, None
    if nm.startswith("STP"):
        return {"stp", "stnp"}, None
    if nm.startswith("prfm"):
        return {"prfm", "prfum"}, None
    return None, None


def decoder_crosscheck(ctx, judged_words):
    """judged_words: {word int: tags}"""
    import shutil
    import struct
    import subprocess
    exe = shutil.which("llvm-mc") or shutil.which("llvm-mc-14")
    if not exe or not judged_words:
        ctx.extra["decoder_crosscheck_llvm_mc"] = {"skipped": "llvm-mc not installed" if not exe else "nothing judged"}
        return
    words = sorted(judged_words)
    inp = "".join(" ".join("0x%02x" % b for b in struct.pack("<I", w)) + "\n" for w in words)
    p = subprocess.run([exe, "--disassemble", "-triple=aarch64", "-mattr=+v8.4a,+lor,+rcpc-immo,+neon,+sve"],
                       input=inp, capture_output=True, text=True)
    # one word per input line; undecodable lines are reported on stderr by line number, the rest
    # are printed in order (llvm's own re-encoding is not used: it canonicalises ignored bits)
    invalid = {int(m.group(1)) for m in re.finditer(r"<stdin>:(\d+):\d+: warning: invalid instruction encoding", p.stderr)}
    lines = [l.strip() for l in p.stdout.splitlines() if l.strip() and not l.strip().startswith(".text")]
    valid = [w for i, w in enumerate(words) if (i + 1) not in invalid]
    if len(valid) != len(lines):
        raise core.ToolError("llvm-mc output does not line up with its input (%d words, %d invalid, %d lines)" % (
            len(words), len(invalid), len(lines)))
    dis = dict(zip(valid, lines))
    agree, uncovered, bad = 0, 0, []
    for w in words:
        fam, reg = _llvm_family(judged_words[w])
        d = dis.get(w, "")
        parts = d.split(None, 1)
        mn = parts[0] if parts else "?"
        if fam is None:
            uncovered += 1
        elif mn in fam and (reg is None or (len(parts) > 1 and parts[1].strip()[:1] == reg)):
            agree += 1
        else:
            bad.append({"word": "%08x" % w, "spec": judged_words[w], "llvm": d})
    ctx.extra["decoder_crosscheck_llvm_mc"] = {"distinct_judged_words": len(words), "agree": agree,
                                              "not_in_table": uncovered, "disagree": len(bad), "examples": bad[:5]}
    if bad:
        raise core.ToolError("A64.tla and llvm-mc decode %d judged words differently (triage the decoder): %s" % (len(bad), bad[:3]))


def validate(ctx, paths, parallel):
    """Run Trace_C03 over the recorded files; returns per-path TLC results."""
    rs = ctx.tlc_trace_many("Trace_C03", paths, parallel=parallel, timeout=1500, heap="3g")
    judged, unspec, outcomes, gen = {}, {}, {}, {}
    jwords = ctx.__dict__.setdefault("_c03_judged_words", {})
    claim_ok, claim_bad = 0, []
    for p, r in zip(paths, rs):
        evs = ctx.read_ndjson(p)
        ctx.traces += len(evs)
        for e in evs:
            g = "repo_tests" if e["cls"].startswith("repo:") else e["cls"]
            gen[g] = gen.get(g, 0) + 1
            if "ok" in e["lift"]:
                run = e.get("run", {})
                k = "lifted, ran to the next instruction" if "ok" in run else (
                    "lifted, executor error " + run["err"] if "err" in run else "lifted, executor panic")
            else:
                k = "lift error (not accepted)" if "err" in e["lift"] else "lift panic (C05)"
            outcomes[k] = outcomes.get(k, 0) + 1
        for line in r.prints:
            if line.startswith('<<"JUDGED"'):
                t = _TAGS.findall(line)[1:]
                k = t[0] + ":" + (t[1] if len(t) > 1 else "")
                judged[k] = judged.get(k, 0) + 1
                n0 = int(re.search(r'"JUDGED", (\d+)', line).group(1))
                jwords[int.from_bytes(bytes(evs[n0 - 1]["word"]), "little")] = t
                if len(ctx.samples) < 3 and judged[k] == 1 and t[0] in ("addsub_ext", "ldst_pre", "test_branch"):
                    n = int(re.search(r'"JUDGED", (\d+)', line).group(1))
                    e = evs[n - 1]
                    ctx.samples.append({"word": _word(e), "spec_decode": t, "big_endian": e["big"],
                                        "instance": {k2: e[k2] for k2 in ("addr", "pre", "run", "post") if k2 in e}})
            elif line.startswith('<<"UNSPEC"'):
                t = _TAGS.findall(line)[1:]
                k = t[1] + ":" + t[0]
                unspec[k] = unspec.get(k, 0) + 1
            elif line.startswith('<<"CLAIM-OK"'):
                claim_ok += 1
            elif line.startswith('<<"CLAIM-MISMATCH"'):
                n = int(re.search(r'(\d+)>>', line).group(1))
                claim_bad.append(evs[n - 1])
    for k, v in (("judged_by_class", judged), ("unspecified_by_class", unspec), ("instances_by_outcome", outcomes),
                 ("instances_by_generator_class", gen)):
        d = ctx.extra.setdefault(k, {})
        for kk, vv in v.items():
            d[kk] = d.get(kk, 0) + vv
    ctx.extra["judged"] = sum(ctx.extra["judged_by_class"].values())
    ctx.extra["unspecified"] = sum(ctx.extra["unspecified_by_class"].values())
    ctx.add_rejects(rs)
    return rs, claim_ok, claim_bad


def run(ctx):
    ctx.build(["c03"])
    mc(ctx)
    q = ctx.quick
    nshard = 8 if q else 24
    per = 1000 if q else 6000
    jobs = [("c03", ["--mode", "random", "--n", per], "rand%02d.ndjson" % i,
             {"extra_env": {"VERIF_SEED": str(ctx.seed * 1000 + i)}}) for i in range(nshard)]
    jobs.append(("c03", ["--mode", "corpus", "--in", CORPUS], "corpus.ndjson"))
    paths = ctx.record_many(jobs, parallel=4)
    rs, claim_ok, claim_bad = validate(ctx, paths, parallel=8 if q else 12)
    decoder_crosscheck(ctx, ctx.__dict__.get("_c03_judged_words", {}))
    # the repository's own expectations, replayed through the specification
    undisputed = [e["cls"] for e in claim_bad if "disputed" not in _corpus_entry(e["cls"])]
    disputed_total = sum(1 for e in _corpus() if "disputed" in e)
    if undisputed:
        raise core.ToolError("A64.tla disagrees with expectations of the repository's tests (transcription error?): %s" % undisputed[:5])
    if len(claim_bad) != disputed_total:
        raise core.ToolError("a disputed repository expectation now agrees with A64.tla: re-triage corpus/c03")
    ctx.extra["repo_test_expectations_replayed"] = {"agree_with_spec": claim_ok, "disputed_and_disagree": len(claim_bad),
                                                    "disputed": sorted({e["cls"] for e in claim_bad})}
    ctx.extra["bounds"] = {"instances_random": nshard * per, "generator_classes": 22, "window_bytes": 96,
                           "endianness": "little (2/3) and big (1/3) data; instructions always little-endian"}
    ctx.assumptions += [
        "spec/A64.tla is a transcription of the Arm ARM pseudocode (no emulator grounds it); it is cross-checked by "
        "MC_A64 against second formulations and by the repository's own test expectations (corpus/c03)",
        "TLC 1.8.0 and the CommunityModules Json/IOUtils/Bitwise overrides; harness projection of scalars and window bytes",
        "memory outside the 96-byte data window, alignment faults, exclusives monitors and memory ordering are not modelled; "
        "CONSTRAINED UNPREDICTABLE and UNDEFINED encodings are counted as unspecified, never judged",
        "lift errors are outside the property (not accepted); lift panics are counted here and judged by C05",
        "the executor is faithful to the IL (C07) and evaluation is exact (C04)"]


_CORPUS = None


def _corpus():
    global _CORPUS
    if _CORPUS is None:
        with open(CORPUS) as f:
            _CORPUS = [json.loads(l) for l in f if l.strip()]
    return _CORPUS


def _corpus_entry(cls):
    for e in _corpus():
        if e["cls"] == cls:
            return e
    return {}


def replay(ctx, path):
    ctx.build(["c03"])
    with open(path) as f:
        rep = json.load(f)
    ev = rep["rejection"].get("event", rep["rejection"])
    inp = os.path.join(ctx.work, "replay_in.ndjson")
    with open(inp, "w") as f:
        f.write(json.dumps({k: ev[k] for k in ("ev", "cls", "word", "big", "addr", "pads", "pre") if k in ev}) + "\n")
    out = ctx.record("c03", ["--mode", "replay", "--in", inp], "replay.ndjson")
    r = ctx.tlc_trace("Trace_C03", out)
    ctx.traces += 1
    ctx.add_rejects(r)


def selftest(ctx):
    """Binding self-test: corrupt one recorded component of instances the specification judged and
    accepted (a register limb, SP, a flag, a window byte, the next pc, a register of the wrong width, a
    missing post-state, an executor error instead of a result, a page written far from the window) and expect exactly those to be
    rejected in addition to the rejections of the unmodified trace."""
    ctx.build(["c03"])
    p = ctx.record("c03", ["--mode", "random", "--n", 600], "selftest.ndjson")
    r0 = ctx.tlc_trace("Trace_C03", p)
    base = {rj["line"] for rj in r0.rejects}
    judged = {int(re.search(r'"JUDGED", (\d+)', l).group(1)) for l in r0.prints if l.startswith('<<"JUDGED"')}
    evs = ctx.read_ndjson(p)
    bad, kinds = set(), {}
    k = 0
    for i, e in enumerate(evs):
        ln = i + 1
        if ln not in judged or ln in base or "ok" not in e.get("run", {}) or ln % 3 != 0:
            continue
        kind = k % 10
        k += 1
        post = e["post"]
        if kind == 0:
            post["x"][(ln * 7) % 31][ln % 8] ^= 1 << (ln % 8)
        elif kind == 1:
            post["sp"][7] ^= 0x80
        elif kind == 2:
            post["f"][ln % 4] ^= 1
        elif kind == 3:
            post["mem"][(ln * 5) % len(post["mem"])] ^= 0x10
        elif kind == 4:
            e["run"]["ok"]["pc"][0] ^= 4
        elif kind == 5:
            post["x"][ln % 31] = post["x"][ln % 31][:4]          # a 32-bit scalar where 64 bits are due
        elif kind == 6:
            del e["post"]                                         # garbage: no post-state at all
        elif kind == 7:
            e["run"] = {"err": "Sort", "msg": "injected"}
        elif kind == 8:
            e["run"] = {"err": "ExecutorLiftFail", "at": [1, 2, 3, 4, 5, 6, 7, 8]}
        else:
            post["pages"] = post["pages"] + [[0, 0, 16, 0, 0, 0, 0, 64]]   # a page written far from the window
        kinds[kind] = kinds.get(kind, 0) + 1
        bad.add(ln)
    qf = p + ".mut"
    with open(qf, "w") as f:
        for e in evs:
            f.write(json.dumps(e) + "\n")
    r1 = ctx.tlc_trace("Trace_C03", qf)
    got = {rj["line"] for rj in r1.rejects}
    core.log("selftest: judged %d, baseline rejections %d, corrupted %d (kinds %s), unexpected %s, missed %s" % (
        len(judged), len(base), len(bad), kinds, sorted(got - bad - base)[:5], sorted((bad | base) - got)[:5]))
    return len(bad) >= 40 and len(kinds) == 10 and got == (bad | base)
