"""C04 - IL expression evaluation is exact fixed-width bit-vector arithmetic.

MC:      MC_BV  (BV limb arithmetic == BVMath integer arithmetic, exhaustive at small widths,
         LimbBits 2, 3 and 8)
Binding: recorder c04 drives il::Constant / il::Expression constructors / executor::eval / the
         derived builders; Trace_C04 recomputes every result from IL!Eval over BV.
"""
from vlib import core

LEVEL = "model_checking"


def mc(ctx):
    ctx.tlc_mc("MC_BV", "MC_BV_L2.cfg", key="MC_BV LimbBits=2 w<=7")
    ctx.tlc_mc("MC_BV", "MC_BV_L3.cfg", key="MC_BV LimbBits=3 w<=7")
    ctx.tlc_mc("MC_BV", "MC_BV_L8.cfg" if ctx.quick else "MC_BV_L8_deep.cfg", key="MC_BV LimbBits=8")


def validate(ctx, paths):
    shards = []
    for p in paths:
        shards += ctx.shard(p, 8 if ctx.quick else 16)
    results = ctx.tlc_trace_many("Trace_C04", shards, timeout=1500)
    kinds = {}
    for p in paths:
        for e in ctx.read_ndjson(p):
            k = e["ev"] + ":" + str(e.get("op", e.get("ctor", e.get("f", ""))))
            kinds[k] = kinds.get(k, 0) + 1
            ctx.traces += 1
            if len(ctx.samples) < 4 and e["ev"] in ("eval", "derived", "constop") and (ctx.traces % 977 == 1):
                ctx.samples.append(e)
    ctx.extra["events_by_kind"] = kinds
    ctx.add_rejects(results)


def run(ctx):
    ctx.build(["c04"])
    mc(ctx)
    q = ctx.quick
    jobs = [
        ("c04", ["--mode", "exhaustive", "--maxw", 4 if q else 6], "exhaustive.ndjson"),
        ("c04", ["--mode", "boundary", "--skipwidediv", 1 if q else 0], "boundary.ndjson"),
        ("c04", ["--mode", "wide", "--n", 4000 if q else 150000], "wide.ndjson"),
        ("c04", ["--mode", "trees", "--n", 2500 if q else 60000], "trees.ndjson"),
        ("c04", ["--mode", "derived", "--n", 1500 if q else 30000], "derived.ndjson"),
    ]
    paths = ctx.record_many(jobs)
    validate(ctx, paths)
    ctx.extra["exhaustive"] = True
    ctx.extra["exhaustive_scope"] = "all 17 binary operators x widths 1..%d x all operand pairs; all zext/sext/trun targets 1..%d" % (
        4 if q else 6, (4 if q else 6) + 10)
    ctx.assumptions += ["TLC 1.8.0 and the CommunityModules Json/IOUtils/Bitwise overrides",
                        "harness projection of il::Constant / il::Expression to JSON (proj module)"]


def replay(ctx, path):
    import json
    ctx.build(["c04"])
    with open(path) as f:
        rep = json.load(f)
    ev = rep["rejection"].get("event", rep["rejection"])
    inp = ctx.work + "/replay_in.ndjson"
    with open(inp, "w") as f:
        f.write(json.dumps(ev) + "\n")
    out = ctx.record("c04", ["--mode", "replay", "--in", inp], "replay.ndjson")
    r = ctx.tlc_trace("Trace_C04", out)
    ctx.traces += 1
    ctx.add_rejects(r)


def selftest(ctx):
    """Binding self-test: corrupt one field of recorded events and expect exactly those events to
    be rejected (guards against a trace spec that constrains nothing)."""
    import json
    ctx.build(["c04"])
    p = ctx.record("c04", ["--mode", "wide", "--n", 300], "selftest.ndjson")
    evs = ctx.read_ndjson(p)
    bad = set()
    for i, e in enumerate(evs):
        if i % 7 == 3 and "ok" in e.get("res", {}):
            v = e["res"]["ok"]["v"]
            v[0] = (v[0] + 1) % 2 if e["res"]["ok"]["w"] == 1 else (v[0] ^ 1)
            bad.add(i + 1)
        elif i % 11 == 5 and "err" in e.get("res", {}):
            e["res"] = {"ok": {"w": e["a"]["w"], "v": e["a"]["v"]}}
            bad.add(i + 1)
    q = p + ".mut"
    with open(q, "w") as f:
        for e in evs:
            f.write(json.dumps(e) + "\n")
    r = ctx.tlc_trace("Trace_C04", q)
    got = {rj["line"] for rj in r.rejects}
    core.log("selftest: corrupted %d events, rejected %d, unexpected %d, missed %d" % (
        len(bad), len(got), len(got - bad), len(bad - got)))
    return len(bad) > 10 and got == bad
