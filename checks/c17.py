"""C17 - stack-pointer offsets hold on every execution, for every architecture.

Binding: recorder c17 generates functions over each of the seven architectures' stack-pointer
scalar (push/pop idioms, frame-pointer copies, loads into sp, alignment masks, alloca-style
subtractions, arms that disagree, loops that leak), runs stack_pointer_offsets and exports the
numeric claims; X_C17 explores every execution (sp0 in a mapped window, 0, and just below 2^w so
that wrap-around is visible) and requires sp = sp0 + offset (mod 2^w) immediately after every
location with a numeric claim; functions whose entry has no incoming edge must be analysed
successfully on every architecture.
"""
import json

from checks import xcommon
from vlib import core

LEVEL = "model_checking"


def run(ctx):
    ctx.build(["c17"])
    paths, rs = xcommon.explore(ctx, "c17", "X_C17", 280, 3500, per_file=28)
    # prologue/epilogue templates assembled by llvm-mc (corpus/c17) and lifted by the real translators
    lifted = ctx.record("c17", ["--mode", "lifted", "--corpus", core.ROOT + "/corpus/c17," + core.ROOT + "/corpus/lifted"], "lifted.json")
    r = ctx.tlc_explore("X_C17", lifted)
    for rj in r.rejects:
        ctx.reject(rj)
    paths = paths + [lifted]
    by_arch, claims, unknown = {}, 0, 0
    for p in paths:
        with open(p) as f:
            for q in json.load(f)["progs"]:
                k = q["arch"] + (":lifted:" if "template" in q else ":") + q["outcome"]["k"]
                by_arch[k] = by_arch.get(k, 0) + 1
                claims += len(q["claims"])
                unknown += q.get("unknown_locations", 0)
    ctx.extra["programs_by_architecture_and_outcome"] = by_arch
    ctx.extra["numeric_offset_claims_checked"] = claims
    ctx.extra["locations_reported_unknown"] = unknown
    ctx.assumptions += ["ILSem is the semantics of the IL (bound to the executor by C07)",
                        "calls (indirect branches, intrinsics) preserve the stack pointer, as the analysis assumes",
                        "functions are synthetic IL over architecture.stack_pointer(), plus 11 lifted prologue/epilogue templates",
                        "control scalars enumerated, sp0 in {window, 0, 2^w-8}; loops bounded by 40 steps"]


def replay(ctx, path):
    xcommon.replay(ctx, path, "c17", "X_C17")


def selftest(ctx):
    """Shift every exported numeric offset by one and expect reports; claim success for an error."""
    ctx.build(["c17"])
    p = ctx.record("c17", ["--mode", "random", "--n", 21], "selftest.json")
    with open(p) as f:
        d = json.load(f)
    touched = set()
    for pi, q in enumerate(d["progs"], 1):
        if q["claims"] and pi % 2 == 0:
            for c in q["claims"]:
                c["off"]["v"][0] ^= 4
            touched.add(pi)
    q2 = p + ".mut"
    with open(q2, "w") as f:
        json.dump(d, f)
    r = ctx.tlc_explore("X_C17", q2)
    got = {rj["prog"] for rj in r.rejects if rj["why"] == "sp-offset"}
    core.log("selftest: corrupted offsets in %d programs, reported in %d, unexpected %s" % (
        len(touched), len(got), sorted(got - touched)))
    # a corrupted claim at a location no explored execution reaches cannot be noticed
    return len(touched) >= 5 and got <= touched and len(got) >= (2 * len(touched)) // 3
