"""C02 - the MIPS32 (big/little endian) and 32-bit PowerPC lifters agree with the architecture manuals.

MC:      MC_Mips  (the branch + delay-slot unit of Mips.tla equals a reference machine with an explicit
                   npc; lwl/lwr/swl/swr agree with a byte-wise formulation and with the unaligned-access
                   idiom, for both endiannesses)
         MC_Ppc   (rlwinm mask formula vs. bit-by-bit definition, compare writes exactly one of lt/gt/eq,
                   BO decoding vs. the manual's table)
         MC_C02_RepoTests (the expected values hard-coded in falcon's own lifter tests, replayed through
                   Mips.tla / Ppc.tla: an independent check of the transcription)
Binding: recorder c02 builds instruction instances from bit-field templates (raw word(s) + boundary-biased
         initial state), lifts them with the real translator, runs the real executor::Driver until control
         leaves the unit, and logs the final registers / HI,LO / LR,CTR,CA / CR bits / window bytes / next pc.
         Trace_C02 decodes the raw word itself, computes the allowed outcomes and compares every component.
"""
import collections
import json
import os

from vlib import core

LEVEL = "model_checking"
ARCHS = ["mips", "mipsel", "ppc"]
TRACE = "Trace_C02"
CORPUS = os.path.join(core.ROOT, "corpus", "c02", "repo_tests.ndjson")


def mc(ctx):
    ctx.tlc_mc("MC_Mips", "MC_Mips.cfg", key="MC_Mips delay-slot machine == npc machine; lwl/lwr/swl/swr lemmas",
               workers=4, heap="4g")
    ctx.tlc_mc("MC_Ppc", "MC_Ppc.cfg", key="MC_Ppc rlwinm mask / compare / BO lemmas", workers=4, heap="4g")
    ctx.tlc_mc("MC_C02_RepoTests", "MC_C02_RepoTests.cfg", key="expected values of falcon's own lifter tests",
               workers=1, heap="2g", env={"TRACE": CORPUS})


def _stats(results):
    tot = collections.Counter()
    for r in results:
        for p in r.prints:
            if p.startswith('<<"STATS", "'):
                body = p[len('<<"STATS", "'):p.rindex('">>')]
                tot.update(json.loads(core._unescape_tla_string(body)))
    return tot


def summarize(ctx, stats, paths):
    per = {}
    unspec_why = {}
    totals = collections.Counter()
    for k, n in stats.items():
        if k.startswith("why:"):
            unspec_why[k[4:]] = unspec_why.get(k[4:], 0) + n
            continue
        if k == "malformed":
            totals["malformed"] += n
            continue
        arch, mn, verdict = k.split(":")
        per.setdefault(arch, {}).setdefault(mn, {})[verdict] = n
        totals[verdict] += n
    ctx.extra["instances_per_mnemonic"] = per
    ctx.extra["mnemonics_judged"] = {a: sorted(m for m, v in d.items() if v.get("ok", 0) + v.get("reject", 0) > 0)
                                     for a, d in per.items()}
    ctx.extra["verdict_totals"] = dict(totals)
    ctx.extra["unspecified"] = int(totals.get("unspec", 0))
    ctx.extra["unspecified_by_reason"] = unspec_why
    ctx.extra["lift_errors_not_judged"] = int(totals.get("lifterr", 0) + totals.get("liftpanic", 0))
    ctx.extra["lift_panics"] = int(totals.get("liftpanic", 0))
    ctx.extra["judged"] = int(totals.get("ok", 0) + totals.get("reject", 0))


def validate(ctx, paths, nshards, parallel=None):
    shards = []
    for p in paths:
        shards += ctx.shard(p, nshards)
    rs = ctx.tlc_trace_many(TRACE, shards, timeout=1500, parallel=parallel)
    n = 0
    lift_kinds, outcomes = collections.Counter(), collections.Counter()
    for p in paths:
        with open(p) as f:
            for line in f:
                if line.strip():
                    n += 1
                    e = json.loads(line)
                    if "ok" in e["lift"]:
                        outcomes[e["arch"] + ":" + e.get("out", {}).get("k", "?")] += 1
                    else:
                        k = "err:" + e["lift"]["err"] if "err" in e["lift"] else "panic"
                        lift_kinds[e["arch"] + ":" + k] += 1
                    if len(ctx.samples) < 3 and n % 997 == 5:
                        ctx.samples.append({k: e[k] for k in ("arch", "addr", "words", "asm", "gpr", "win", "out") if k in e})
    ctx.traces += n
    ctx.extra["lift_outcomes_not_ok"] = dict(lift_kinds)       # a `Sort` error here would be worth a look (none seen)
    ctx.extra["run_outcomes"] = dict(outcomes)
    ctx.add_rejects(rs)
    return _stats(rs)


def run(ctx):
    ctx.build(["c02"])
    mc(ctx)
    q = ctx.quick
    per_arch = 6000 if q else 30000
    parts = 2 if q else 8
    jobs = []
    for a in ARCHS:
        for i in range(parts):
            jobs.append(("c02", ["--mode", "random", "--arch", a, "--n", per_arch // parts], "%s-%d.ndjson" % (a, i),
                         {"extra_env": {"VERIF_SEED": str(ctx.seed * 1000 + i)}}))
    import time
    t0 = time.time()
    paths = ctx.record_many(jobs, parallel=6 if q else 8)
    t1 = time.time()
    stats = validate(ctx, paths, 2 if q else 2, parallel=12 if q else 16)
    core.log("[C02] recorded %d traces in %.1fs, validated in %.1fs" % (len(paths), t1 - t0, time.time() - t1))
    summarize(ctx, stats, paths)
    ctx.extra["generator"] = {
        "instances_per_arch": per_arch,
        "mips_units": "one word, or branch/jump + delay-slot word (ALU/load/store classes)",
        "fields": "opcode/function from the template table; register fields random with zero/$ra/aliasing bias; "
                  "immediates 0,1,0x7fff,0x8000,0xffff,random; 5% 'wild' words with reserved fields set",
        "states": "every register boundary-biased (0, 1, sign boundary, all ones, single bits, small) or random; "
                  "overflow/equality/shift-count/alignment classes forced per template; 64-byte data window at "
                  "0x100, 0x10008000, 0x7fffffe0, 0xffffff80, 0x234567c0; code at 7 addresses incl. 0x0ffffffc, 0x7ffffff0, 0x80002000",
    }
    ctx.assumptions += [
        "TLC 1.8.0 and the CommunityModules Json/IOUtils/Bitwise overrides",
        "Mips.tla / Ppc.tla are transcriptions of the architecture manuals (no emulator grounds them); they are "
        "cross-checked by MC_Mips / MC_Ppc (second formulations) and by the expected values of falcon's own lifter tests",
        "the executor implements the IL (C07) and expression evaluation is exact (C04)",
        "harness projection of registers, flags, window bytes and the next pc; the register-name table of the harness "
        "($zero..$ra, $hi, $lo; r0..r31, lr, ctr, carry, crN-lt/gt/eq/so) is the binding between IL scalars and the architecture",
        "next pc of an IL Branch operation is the evaluated target expression (the Driver's re-lifting is not part of C02)",
        "not judged (counted as unspecified): address-error / alignment exceptions, UNPREDICTABLE cases, XER[SO/OV], "
        "hardware registers, accesses outside the data window; a lifter Err on a defined word is not a violation",
    ]


def replay(ctx, path):
    ctx.build(["c02"])
    with open(path) as f:
        rep = json.load(f)
    ev = rep["rejection"].get("event", rep["rejection"])
    inp = ctx.work + "/replay_in.ndjson"
    with open(inp, "w") as f:
        f.write(json.dumps(ev) + "\n")
    out = ctx.record("c02", ["--mode", "replay", "--in", inp], "replay.ndjson")
    r = ctx.tlc_trace(TRACE, out)
    ctx.traces += 1
    ctx.add_rejects(r)
    ctx.extra["replay_stats"] = dict(_stats([r]))


def selftest(ctx):
    """Binding self-test: corrupt single recorded fields of accepted instances (a register value, a
    width, HI/LO / LR / CR bit, a window byte, the next pc, the outcome kind, a stray written page,
    a truncated register file) and expect exactly those events to be rejected."""
    ctx.build(["c02"])
    paths = [ctx.record("c02", ["--mode", "random", "--arch", a, "--n", 250], "selftest-%s.ndjson" % a) for a in ARCHS]
    evs = []
    for p in paths:
        evs += ctx.read_ndjson(p)
    clean = ctx.work + "/selftest-all.ndjson"
    with open(clean, "w") as f:
        for e in evs:
            f.write(json.dumps(e) + "\n")
    base = ctx.tlc_trace(TRACE, clean)
    already = {rj["line"] for rj in base.rejects}
    bad, kinds = set(), collections.Counter()
    j = 0
    for i, e in enumerate(evs):
        if (i + 1) in already or "ok" not in e["lift"] or e.get("out", {}).get("k") != "ok" or i % 3 != 0:
            continue
        if "mul" in e["tag"].split("+") or e["tag"] in ("cmpwi", "cmplwi", "cmpw", "cmplw"):
            continue        # HI/LO after mul, the SO bit of a compare: don't-care components are (rightly) not compared
        kind = j % 11
        j += 1
        post = e["post"]
        mips = e["arch"] != "ppc"
        if kind == 0:
            post["gpr"][5]["v"][0] ^= 1
        elif kind == 1:
            post["gpr"][7]["w"] = 31
        elif kind == 2:
            (post["hi"] if mips else post["lr"])["v"][3] ^= 0x80
        elif kind == 3:
            if mips:
                post["lo"]["v"][1] ^= 4
            else:
                post["cr"][9]["v"][0] ^= 1          # cr2-gt
        elif kind == 4:
            post["mem1"][20] = (post["mem1"][20] + 1) % 256
        elif kind == 5:
            e["out"]["npc"][0] ^= 4
        elif kind == 6:
            e["out"] = {"k": "intrinsic", "mn": "trap"}
        elif kind == 7:
            post["pages"].append([0, 0, 0x55, 0x44, 0, 0, 0, 0])
        elif kind == 8:
            post["gpr"] = post["gpr"][:31]           # malformed: must be a REJECT, not a TLC crash
        elif kind == 9:
            if mips:
                post["gpr"][31]["v"][2] ^= 1         # $ra
            else:
                post["ca"]["v"][0] ^= 1
        else:
            e["out"] = {"k": "err", "e": "ExecutorNoValidLocation"}
        # an unspecified instance is not judged: corrupting it must not be (and is not) detected
        bad.add(i + 1)
        kinds[kind] += 1
    q = ctx.work + "/selftest-mut.ndjson"
    with open(q, "w") as f:
        for e in evs:
            f.write(json.dumps(e) + "\n")
    r = ctx.tlc_trace(TRACE, q)
    got = {rj["line"] for rj in r.rejects}
    st = _stats([base])
    unspec_lines = set()
    # corrupted instances that the specification does not judge are excluded from the expectation
    for rj_line in sorted(bad - got):
        unspec_lines.add(rj_line)
    judged_missed = set()
    if unspec_lines:
        sub = ctx.work + "/selftest-missed.ndjson"
        idx = sorted(unspec_lines)
        with open(sub, "w") as f:
            for k in idx:
                f.write(json.dumps(ctx.read_ndjson(clean)[k - 1]) + "\n")
        rr = ctx.tlc_trace(TRACE, sub)
        s2 = _stats([rr])
        n_unspec = sum(v for k, v in s2.items() if k.endswith(":unspec"))
        if n_unspec != len(idx):
            judged_missed = unspec_lines
    core.log("selftest: corrupted %d accepted instances (%s), rejected %d of them, %d not judged (unspecified), "
             "new rejections elsewhere %d, missed %d; baseline stats ok=%d" % (
                 len(bad), dict(kinds), len(bad & got), len(unspec_lines) if not judged_missed else 0,
                 len(got - bad - already), len(judged_missed), sum(v for k, v in st.items() if k.endswith(":ok"))))
    return len(bad & got) >= 60 and not (got - bad - already) and not judged_missed and len(kinds) == 11
