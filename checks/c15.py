"""C15 - CFG construction and editing keep graphs consistent and meaning intact.

MC:      MC_Cfg (Cfg.tla operations vs. the relations MergeOK / AppendOK / BlockifyLangs, Lang vs. a
         second formulation, and the implementation-shaped CfgImpl!ImplMerge) on all small graphs.
Binding: recorder c15 drives random edit histories (<= 60 operations) on the real
         il::ControlFlowGraph / il::Block and BlockTranslationResult::blockify; Trace_C15 checks the
         invariant WF on every logged state, every deterministic operation against the model
         operation, and the path-language relation (k = 8) across merge / append / blockify.
"""
import json
import os

from vlib import core

LEVEL = "model_checking"
K = 8
DET_OPS = ("new_block", "add_ins", "uncond_edge", "cond_edge", "set_entry", "set_exit", "block_append", "remove_ins")


def mc(ctx):
    ctx.tlc_mc("MC_Cfg", "MC_Cfg_2.cfg", key="MC_Cfg 2 blocks x 0..2 instructions, all edges/entry/exit, append family")
    ctx.tlc_mc("MC_Cfg", "MC_Cfg_3.cfg", key="MC_Cfg 3 blocks x 0..1 instructions")


def stream(path):
    with open(path) as f:
        for l in f:
            if l.strip():
                yield json.loads(l)


def session_inputs(lines, line_no):
    """Descriptors of the session that contains line `line_no` (1-based), up to that line."""
    i = line_no - 1
    start = i
    while start > 0 and json.loads(lines[start]).get("ev") != "begin":
        start -= 1
    out = []
    for l in lines[start:i + 1]:
        e = json.loads(l)
        if e.get("ev") == "begin":
            out.append({"ev": "begin", "sid": e.get("sid", 0), "kind": e.get("kind", "replay")})
        else:
            out.append({"ev": "op", "d": e["d"]})
    return out


def attach_sessions(results):
    """Make every rejection self-contained: add the inputs (descriptors) of its session."""
    for r in results:
        cache = {}
        for rj in r.rejects:
            p = os.path.join(core.ROOT, rj["trace"])
            if p not in cache:
                with open(p) as f:
                    cache[p] = [l for l in f if l.strip()]
            if isinstance(rj.get("line"), int):
                rj["session"] = session_inputs(cache[p], rj["line"])


def validate(ctx, paths, nshards):
    shards = []
    for p in paths:
        shards += ctx.shard(p, nshards, by_session=True)
    results = ctx.tlc_trace_many("Trace_C15", shards, timeout=1500, parallel=min(core.NCPU, 16))
    attach_sessions(results)
    ctx.add_rejects(results)
    ops = {}
    sessions = 0
    lang_events = 0
    for p in paths:
        cur = []
        for e in stream(p):
            if e["ev"] == "begin":
                sessions += 1
                if cur and len(ctx.samples) < 2 and 6 <= len(cur) <= 14:
                    ctx.samples.append({"operations": [{"d": x["d"], "res": x["res"]} for x in cur[1:]],
                                        "final_state": cur[-1]["post"]})
                cur = [e]
                continue
            cur.append(e)
            res = "ok" if "ok" in e["res"] else "err" if "err" in e["res"] else "panic"
            k = "%s:%s" % (e["op"], res)
            ops[k] = ops.get(k, 0) + 1
            if e["op"] in ("merge", "append", "blockify"):
                lang_events += 1
    ctx.traces += sessions
    ctx.extra["operations_by_kind_and_result"] = ops
    ctx.extra["language_relation_events"] = lang_events
    return results


def run(ctx):
    ctx.build(["c15"])
    mc(ctx)
    q = ctx.quick
    jobs = [("c15", ["--mode", "targeted"], "targeted.ndjson")]
    if q:
        jobs += [("c15", ["--mode", "random", "--n", 160, "--maxops", 60], "random.ndjson"),
                 ("c15", ["--mode", "blockify", "--n", 200], "blockify.ndjson")]
    else:
        jobs += [("c15", ["--mode", "random", "--n", 2500, "--maxops", 60, "--salt", k], "random%d.ndjson" % k) for k in range(4)]
        jobs += [("c15", ["--mode", "blockify", "--n", 12000], "blockify.ndjson")]
    paths = ctx.record_many(jobs, parallel=4)
    validate(ctx, paths, 4)
    ctx.extra["language_bound_k"] = K
    ctx.extra["generator_bounds"] = {
        "operations_per_history": "<= 60 (+ a closing merge)", "blocks": "<= ~12", "instructions_per_block": "unbounded by construction, typically <= 6",
        "appended_graphs": "lifter-shaped templates (single block, rep loop, diamond, chain, conditional body, self-loops) and free-form histories, or the graph itself",
        "blockify": "1..5 per-instruction graphs (rarely 0)"}
    ctx.extra["accepted_outside_the_property"] = (
        "merge() returning Err('duplicate edge') after duplicating the instructions of a non-entry block whose only edge is an "
        "unconditional self-loop (model finding F2 of CfgImpl.tla): WF and the language from the entry still hold, so the "
        "statement of C15 is not violated; counted under operations_by_kind_and_result['merge:err']")
    ctx.assumptions += [
        "TLC 1.8.0 and the CommunityModules Json/IOUtils overrides",
        "harness projection of il::ControlFlowGraph to JSON through its public accessors (payload tag = Display of the operation, "
        "condition tag = Display of the edge condition)",
        "the path language is compared up to length %d" % K,
    ]


def replay(ctx, path):
    ctx.build(["c15"])
    with open(path) as f:
        rep = json.load(f)
    rj = rep["rejection"]
    sess = rj.get("session")
    if not sess:
        raise core.ToolError("replay file has no session inputs")
    inp = ctx.work + "/replay_in.ndjson"
    with open(inp, "w") as f:
        for e in sess:
            f.write(json.dumps(e) + "\n")
    out = ctx.record("c15", ["--mode", "replay", "--in", inp], "replay.ndjson")
    r = ctx.tlc_trace("Trace_C15", out)
    attach_sessions([r])
    ctx.traces += 1
    ctx.add_rejects(r)


# ------------------------------------------------------------------------------------------------
# binding self-test
# ------------------------------------------------------------------------------------------------
def _mutate(kind, evs, idxs):
    """Try to apply mutation `kind` to one event of the session (event indices idxs[1:], idxs[0] is
    the begin line).  Returns (index of the line expected to be rejected, index to drop or None) or None."""
    for n, i in enumerate(idxs[1:], start=1):
        e = evs[i]
        st = e["post"]["ok"]
        det = e["op"] in DET_OPS
        if kind == "query" and det:
            for b in st["blocks"]:
                if b["succ"]["ok"]:
                    b["succ"]["ok"] = b["succ"]["ok"][1:]
                    return i, None
        elif kind == "edges_in" and det:
            for b in st["blocks"]:
                if len(st["blocks"]) > 1 and not b["ei"]["ok"]:
                    b["ei"]["ok"] = [[st["blocks"][0]["i"], b["i"]]]
                    return i, None
        elif kind == "ins_index":
            for b in st["blocks"]:
                if len(b["ins"]) >= 2 and e["op"] in ("merge", "block_append", "add_ins"):
                    b["ins"][1]["i"] = b["ins"][0]["i"]
                    return i, None
        elif kind == "entry" and det and st["entry"] >= 0 and len(st["blocks"]) >= 2:
            st["entry"] = [b["i"] for b in st["blocks"] if b["i"] != st["entry"]][0]
            return i, None
        elif kind == "exit_stale" and det:
            st["exit"] = 99
            return i, None
        elif kind == "tag" and e["op"] == "merge" and st["entry"] >= 0:
            eb = [b for b in st["blocks"] if b["i"] == st["entry"]]
            if eb and eb[0]["ins"]:
                eb[0]["ins"][0]["p"] = "zz"
                return i, None
        elif kind == "append_tag" and e["op"] == "append" and "ok" in e["res"] and st["entry"] >= 0:
            # change the payload of the first instruction of the appended entry block
            newest = max(b["i"] for b in st["blocks"])
            eb = [b for b in st["blocks"] if b["i"] == st["entry"]]
            if eb and eb[0]["ins"] and newest != st["entry"]:
                eb[0]["ins"][0]["p"] = "zz"
                return i, None
        elif kind == "res" and e["op"] == "set_entry" and "ok" in e["res"]:
            e["res"] = {"err": "FalconInternal"}
            return i, None
        elif kind == "dangling" and det and st["blocks"]:
            st["edges"].append({"h": st["blocks"][0]["i"], "t": 77, "c": ""})
            return i, None
        elif kind == "drop" and e["op"] in ("new_block", "add_ins") and "ok" in e["res"] and n + 1 < len(idxs):
            nxt = evs[idxs[n + 1]]
            if nxt["op"] in DET_OPS:
                return idxs[n + 1], i
        elif kind == "blockify_tag" and e["op"] == "blockify" and "ok" in e["res"]:
            r = e["result"]
            eb = [b for b in r["blocks"] if b["i"] == r["entry"]]
            if eb and eb[0]["ins"]:
                eb[0]["ins"][0]["p"] = "zz"
                return i, None
    return None


def selftest(ctx):
    """Corrupt recorded fields / drop events in sessions that are otherwise accepted and expect exactly
    those lines (plus the genuine rejections of the unmodified trace) to be rejected."""
    ctx.build(["c15"])
    p1 = ctx.record("c15", ["--mode", "random", "--n", 60, "--maxops", 40], "selftest.ndjson")
    p2 = ctx.record("c15", ["--mode", "blockify", "--n", 30], "selftest_b.ndjson")
    evs = ctx.read_ndjson(p1) + ctx.read_ndjson(p2)
    base = ctx.work + "/selftest_all.ndjson"
    with open(base, "w") as f:
        for e in evs:
            f.write(json.dumps(e) + "\n")
    r0 = ctx.tlc_trace("Trace_C15", base)
    genuine = {rj["line"] - 1 for rj in r0.rejects}
    # sessions as index lists
    sessions = []
    for i, e in enumerate(evs):
        if e["ev"] == "begin":
            sessions.append([i])
        else:
            sessions[-1].append(i)
    clean = [s for s in sessions if not (set(s) & genuine)]
    kinds = ["query", "edges_in", "ins_index", "entry", "exit_stale", "tag", "append_tag", "res", "dangling", "drop",
             "query", "tag", "drop", "ins_index", "blockify_tag"]       # blockify sessions come last in the file
    expect = set(genuine)
    dropped = set()
    applied = {}
    si = 0
    for kind in kinds:
        while si < len(clean):
            s = clean[si]
            si += 1
            m = _mutate(kind, evs, s)
            if m is not None:
                expect.add(m[0])
                if m[1] is not None:
                    dropped.add(m[1])
                applied[kind] = applied.get(kind, 0) + 1
                break
    # write the mutated trace; map original indices to new line numbers
    q = ctx.work + "/selftest_mut.ndjson"
    newline = {}
    n = 0
    with open(q, "w") as f:
        for i, e in enumerate(evs):
            if i in dropped:
                continue
            n += 1
            newline[i] = n
            f.write(json.dumps(e) + "\n")
    r = ctx.tlc_trace("Trace_C15", q)
    got = {rj["line"] for rj in r.rejects}
    want = {newline[i] for i in expect}
    core.log("selftest: mutations applied %s; genuine rejections %d; expected %d, rejected %d, unexpected %d, missed %d" % (
        applied, len(genuine), len(want), len(got), len(got - want), len(want - got)))
    for rj in r.rejects:
        if rj["line"] in (got - want):
            core.log("  unexpected: line %d %s" % (rj["line"], rj["why"]))
    return len(applied) >= 9 and sum(applied.values()) >= 12 and got == want
