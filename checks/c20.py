"""C20 - architecture descriptors agree with the lifters and the platform ABI.

Finite configuration space (7 architectures x their descriptor and calling-convention tables x
the translators' register sets), explored exhaustively: the recorder c20 exports every
descriptor through the public API and the register set / address width / byte order observed in
IL lifted from an llvm-mc assembled corpus (corpus/c20); Trace_C20 evaluates the predicates of
spec/Abi.tla on every exported line.
"""
import json
import os

from vlib import core

LEVEL = "exploration"
CORPUS = os.path.join(core.ROOT, "corpus", "c20")
ARCHS = ["x86", "amd64", "mips", "mipsel", "ppc", "aarch64", "aarch64eb"]


def attach_sessions(r):
    if not r.rejects:
        return
    path = os.path.join(core.ROOT, r.rejects[0]["trace"])
    with open(path) as f:
        lines = [l for l in f if l.strip()]
    for rj in r.rejects:
        i = rj["line"] - 1
        while i >= 0:
            if '"ev":"begin"' in lines[i]:
                b = json.loads(lines[i])
                rj["session"] = {"arch": b["arch"], "cc": b["cc"], "name": b["name"], "endian": b["endian"],
                                 "word": b["word"], "sp": b["sp"]}
                break
            i -= 1


def account(ctx, path):
    evs = ctx.read_ndjson(path)
    cases = [e for e in evs if e["ev"] != "begin"]
    kinds = {}
    for e in cases:
        kinds[e["ev"]] = kinds.get(e["ev"], 0) + 1
    begins = [e for e in evs if e["ev"] == "begin"]
    ctx.traces += len(begins)
    ctx.extra["evaluations"] = len(cases)
    # distinct: the same question about the same table (mips/mipsel and aarch64/aarch64eb share
    # their calling-convention tables) is counted once
    ctx.extra["distinct_nontrivial"] = len({json.dumps(e, sort_keys=True) for e in cases})
    ctx.extra["rule"] = ("one case = one exported fact about one architecture judged by one predicate of Abi.tla "
                         "(descriptor field, calling-convention field, register named by the convention vs the "
                         "translator's observed scalars, register name in both sets / against the ABI classes, "
                         "argument_type(n) for n = 0..12, is_preserved/is_trashed of every register in sight, executed "
                         "immediate-load and memory-load probes); every case has its subject taken from falcon's own "
                         "tables or from IL lifted by its translators, so none is trivial; identical cases of "
                         "architectures sharing a table are counted once in distinct_nontrivial")
    ctx.extra["cases_by_kind"] = kinds
    ctx.extra["exhaustive"] = True
    ctx.extra["architectures"] = [b["arch"] for b in begins]
    ctx.extra["corpus"] = {b["arch"]: {"lifted": b["observed"]["lifted"], "not_lifted": b["observed"]["failed"],
                                       "observed_scalars": len(b["observed"]["scalars"])} for b in begins}
    for b in begins:
        if b["arch"] in ("mips", "aarch64") and len(ctx.samples) < 2:
            ctx.samples.append(b)
    for e in cases:
        if e["ev"] in ("argtype", "loadprobe") and len(ctx.samples) < 5:
            ctx.samples.append(e)
    return begins


def run(ctx):
    ctx.build(["c20"])
    p = ctx.record("c20", ["--corpus", CORPUS], "export.ndjson")
    begins = account(ctx, p)
    if [b["arch"] for b in begins] != ARCHS:
        raise core.ToolError("export does not cover the seven architectures")
    r = ctx.tlc_trace("Trace_C20", p)
    attach_sessions(r)
    ctx.add_rejects(r)
    ctx.assumptions += [
        "TLC and the CommunityModules Json/IOUtils overrides",
        "the ABI constants of spec/Abi.tla are transcriptions of the psABI documents (i386, x86-64, MIPS o32, PowerPC 32-bit "
        "System V, AAPCS64)",
        "the observed register set is what the translators emit on corpus/c20 (llvm-mc encodings naming every general "
        "register); a register the corpus never exercises would be reported as not produced",
    ]


def replay(ctx, path):
    ctx.build(["c20"])
    with open(path) as f:
        rep = json.load(f)
    arch = rep["rejection"]["session"]["arch"]
    inp = os.path.join(ctx.work, "replay_in.json")
    with open(inp, "w") as f:
        json.dump({"arch": arch}, f)
    out = ctx.record("c20", ["--mode", "replay", "--in", inp, "--corpus", CORPUS], "replay.ndjson")
    account(ctx, out)
    r = ctx.tlc_trace("Trace_C20", out)
    attach_sessions(r)
    ctx.add_rejects(r)


def selftest(ctx):
    """Corrupt exported facts (one per line) and expect exactly those lines to be rejected in
    addition to the ones the unchanged export already has."""
    ctx.build(["c20"])
    p = ctx.record("c20", ["--corpus", CORPUS], "selftest.ndjson")
    evs = ctx.read_ndjson(p)
    r0 = ctx.tlc_trace("Trace_C20", p)
    already = {rj["line"] for rj in r0.rejects}
    bad = set()
    k = 0
    for i, e in enumerate(evs):
        ln = i + 1
        if ln in already or e["ev"] == "begin":
            continue
        k += 1
        ev = e["ev"]
        if ev == "desc":
            if e["field"] == "endian":
                e["value"] = "big" if e["value"] == "little" else "little"
            elif e["field"] == "word":
                e["value"] = 96 - e["value"]
            elif e["field"] in ("sp", "sp_observed"):
                e["value"] = [e["value"][0], 16]
            elif e["field"] == "addr_width":
                e["value"] = e["value"] + [16]
            else:
                e["value"] = e["value"] + "x"
            bad.add(ln)
        elif ev == "ccfield":
            v = e["value"]
            if e["field"] == "args":
                if len(v) < 2:
                    continue
                v[0], v[1] = v[1], v[0]
            elif e["field"] == "ret":
                e["value"] = [v[0], v[1] // 2]
            elif e["field"] == "retaddr":
                e["value"] = {"k": "stack", "off": 4} if v["k"] == "reg" else {"k": "stack", "off": v["off"] + 4}
            elif e["field"] == "sp_preserved":
                e["value"] = 0
            else:
                e["value"] = v + 4
            bad.add(ln)
        elif ev == "ccreg" and k % 3 == 0:
            e["s"] = [e["s"][0], e["s"][1] * 2]
            bad.add(ln)
        elif ev == "argtype" and k % 2 == 0:
            ok = e["res"]["ok"]
            if ok["k"] == "stack":
                ok["off"] += 1
            else:
                e["res"]["ok"] = {"k": "stack", "off": 0}
            bad.add(ln)
        elif ev == "query" and k % 4 == 0 and e["preserved"] != e["trashed"]:
            e["preserved"], e["trashed"] = e["trashed"], e["preserved"]
            bad.add(ln)
        elif ev == "immprobe":
            if k % 2 == 0:
                e["reversed"] = {"ok": e["imm"]}
            else:
                e["platform"] = {"ok": list(reversed(e["imm"]))}
            bad.add(ln)
        elif ev == "loadprobe":
            e["res"]["ok"] = list(reversed(e["res"]["ok"]))
            bad.add(ln)
    q = p + ".mut"
    with open(q, "w") as f:
        for e in evs:
            f.write(json.dumps(e) + "\n")
    r = ctx.tlc_trace("Trace_C20", q)
    got = {rj["line"] for rj in r.rejects} - already
    core.log("selftest: %d lines, %d rejected unchanged, corrupted %d, newly rejected %d, unexpected %d, missed %d" % (
        len(evs), len(already), len(bad), len(got), len(got - bad), len(bad - got)))
    return len(bad) > 40 and got == bad
