"""C19 - ELF loading maps exactly the image and rebases uniformly.

MC:      MC_Elf (spec/Elf.tla at small scope: loading commutes with rebasing, overlapping segments
         follow last-writer-wins, three formulations of the image agree).
Binding: recorder c19 generates image descriptions, serialises them with its own ELF writer
         (checked here against `readelf`, an independent parser), loads each file with
         falcon::loader::Elf at three bases and logs memory / architecture / function entries /
         symbols / program entry; real files linked by ld.lld (corpus/c19, descriptions taken from
         readelf) go the same way; two-object sets go through ElfLinker.  Trace_C19 compares every
         answer with Load(desc, base).
Growth:  spec/Loader.tla (+ MC_Loader): Loader::program_verbose / program_recursive_verbose on the
         real files and on generated code images with a known call graph (checked here against
         llvm-objdump); the JSON loader against the same Image / entry predicates.
"""
import json
import os
import re
import shutil
import subprocess

from vlib import core

LEVEL = "model_checking"
CORPUS = os.path.join(core.ROOT, "corpus", "c19")


# ------------------------------------------------------------------------------------------------
# descriptions from readelf (independent of goblin and of the harness' writer)
# ------------------------------------------------------------------------------------------------
def limbs(v):
    return [(v >> (8 * i)) & 255 for i in range(8)]


PT = {"NULL": 0, "LOAD": 1, "DYNAMIC": 2, "INTERP": 3, "NOTE": 4, "SHLIB": 5, "PHDR": 6, "TLS": 7,
      "GNU_EH_FRAME": 0x6474e550, "GNU_STACK": 0x6474e551, "GNU_RELRO": 0x6474e552, "GNU_PROPERTY": 0x6474e553,
      "REGINFO": 0x70000000, "RTPROC": 0x70000001, "OPTIONS": 0x70000002, "ABIFLAGS": 0x70000003}
STT = {"NOTYPE": 0, "OBJECT": 1, "FUNC": 2, "SECTION": 3, "FILE": 4, "COMMON": 5, "TLS": 6, "IFUNC": 10}
STB = {"LOCAL": 0, "GLOBAL": 1, "WEAK": 2}
MACHINES = {"Intel 80386": 3, "Advanced Micro Devices X86-64": 62, "MIPS R3000": 8, "PowerPC": 20, "AArch64": 183}
_PH = re.compile(r"^\s+(\S+)\s+(0x[0-9a-f]+)\s+(0x[0-9a-f]+)\s+(0x[0-9a-f]+)\s+(0x[0-9a-f]+)\s+(0x[0-9a-f]+)\s(.{3})\s+(\S+)\s*$")
_SYM = re.compile(r"^\s*(\d+):\s+([0-9a-f]+)\s+(\S+)\s+(\S+)\s+(\S+)\s+(\S+)(?:\s+\[[^\]]*\])?\s+(\S+)(?:\s(.*))?$")
_REL = re.compile(r"^([0-9a-f]+)\s+([0-9a-f]+)\s+(\S+)")


def readelf(path, *flags):
    p = subprocess.run(["readelf"] + list(flags) + [path], stdout=subprocess.PIPE, stderr=subprocess.PIPE, text=True)
    if p.returncode != 0 or "Error:" in p.stderr:
        raise core.ToolError("readelf failed on %s: %s" % (path, p.stderr[:500]))
    return p.stdout


def describe(path):
    """Image description of an ELF file as reported by binutils readelf -hlsrW; segment bytes
    are read from the file at the offsets readelf reports."""
    with open(path, "rb") as f:
        blob = f.read()
    d = {"segs": [], "symtab": [], "dynsym": [], "pltrel": []}
    h = readelf(path, "-hW")
    for line in h.splitlines():
        k, _, v = line.partition(":")
        k, v = k.strip(), v.strip()
        if k == "Class":
            d["cls"] = 64 if v == "ELF64" else 32
        elif k == "Data":
            d["data"] = "LE" if "little" in v else "BE"
        elif k == "Type":
            d["etype"] = {"EXEC": 2, "DYN": 3, "REL": 1}.get(v.split()[0], 0)
        elif k == "Machine":
            if v not in MACHINES:
                raise core.ToolError("unknown machine %r in %s" % (v, path))
            d["machine"] = MACHINES[v]
        elif k == "Entry point address":
            d["entry"] = limbs(int(v, 16))
    in_ph = False
    for line in readelf(path, "-lW").splitlines():
        if line.startswith("Program Headers:"):
            in_ph = True
            continue
        if in_ph and line.strip().startswith("Section to Segment"):
            break
        m = _PH.match(line) if in_ph else None
        if m:
            name = m.group(1)
            if name in PT:
                ty = PT[name]
            else:
                mm = re.match(r"(LOOS|LOPROC)\+(0x[0-9a-f]+)", name)
                if not mm:
                    raise core.ToolError("unknown program header type %r in %s" % (name, path))
                ty = (0x60000000 if mm.group(1) == "LOOS" else 0x70000000) + int(mm.group(2), 16)
            off, va, fs, ms = (int(m.group(i), 16) for i in (2, 3, 5, 6))
            fl = m.group(7)
            flags = (4 if "R" in fl else 0) | (2 if "W" in fl else 0) | (1 if "E" in fl else 0)
            d["segs"].append({"type": ty, "off": off, "vaddr": limbs(va), "filesz": fs, "memsz": ms, "flags": flags,
                              "bytes": list(blob[off:off + fs]) if ty == 1 else []})
    table = None
    for line in readelf(path, "-sW").splitlines():
        m = re.match(r"^Symbol table '(\.\w+)'", line)
        if m:
            table = {".symtab": "symtab", ".dynsym": "dynsym"}.get(m.group(1))
            continue
        m = _SYM.match(line)
        if m and table:
            ndx = m.group(7)
            shndx = {"UND": 0, "ABS": 0xfff1, "COM": 0xfff2}.get(ndx)
            if shndx is None:
                shndx = int(ndx)
            if m.group(4) not in STT or m.group(5) not in STB:
                raise core.ToolError("unknown symbol kind in %s: %s" % (path, line))
            # readelf prints the section's name for an unnamed SECTION symbol (st_name = 0)
            name = "" if m.group(4) == "SECTION" else (m.group(8) or "").strip()
            d[table].append({"name": name, "value": limbs(int(m.group(2), 16)),
                             "type": STT[m.group(4)], "bind": STB[m.group(5)], "shndx": shndx})
    sect = None
    for line in readelf(path, "-rW").splitlines():
        m = re.match(r"^Relocation section '(\S+)'", line)
        if m:
            sect = m.group(1)
            continue
        m = _REL.match(line)
        if m and sect in (".rel.plt", ".rela.plt"):
            info = int(m.group(2), 16)
            d["pltrel"].append({"off": limbs(int(m.group(1), 16)), "sym": info >> (32 if d["cls"] == 64 else 8)})
    return d


def same_desc(a, b):
    keys = ("cls", "data", "machine", "etype", "entry", "segs", "symtab", "dynsym", "pltrel")
    return [k for k in keys if a.get(k) != b.get(k)]


_CALL = re.compile(r"^\s*([0-9a-f]+):\s+(calll|callq|call|jal|bl)\s+(0x[0-9a-f]+|\d+)")
_RET = re.compile(r"^\s*([0-9a-f]+):\s+(retl|retq|ret|jr\s+\$ra|blr)\b")


def unlimbs(a):
    return sum(b << (8 * i) for i, b in enumerate(a))


def code_check(path, desc):
    """The call graph the harness claims for a generated code image (desc["code"]) against an
    independent disassembler: every function slot (0x40 bytes) must contain exactly the direct
    calls listed, followed by a return."""
    p = subprocess.run(["llvm-objdump", "-d", "--no-show-raw-insn", path], stdout=subprocess.PIPE, stderr=subprocess.PIPE, text=True)
    if p.returncode != 0:
        raise core.ToolError("llvm-objdump failed on %s: %s" % (path, p.stderr[:300]))
    text = [s for s in desc["segs"] if s["type"] == 1][0]
    lo = unlimbs(text["vaddr"])
    calls, rets = {}, set()
    for line in p.stdout.splitlines():
        m = _CALL.match(line)
        if m:
            site = int(m.group(1), 16)
            t = m.group(3)
            calls.setdefault(lo + (site - lo) // 0x40 * 0x40, set()).add(int(t, 16) if t.startswith("0x") else int(t))
        m = _RET.match(line)
        if m:
            site = int(m.group(1), 16)
            rets.add(lo + (site - lo) // 0x40 * 0x40)
    bad = []
    for c in desc["code"]:
        a = unlimbs(c["addr"])
        want = {unlimbs(t) for t in c["calls"]}
        if desc["cls"] == 32:
            want = {t & 0xffffffff for t in want}
        if calls.get(a, set()) != want or a not in rets:
            bad.append((hex(a), sorted(want), sorted(calls.get(a, set()))))
    return bad


def writer_check(ctx, n):
    """The harness' ELF writer against readelf: every generated file must be described by
    readelf exactly as the harness describes it (header, program headers and the file bytes
    they cover, both symbol tables, PLT relocations)."""
    d = os.path.join(ctx.work, "dump")
    shutil.rmtree(d, ignore_errors=True)
    p = ctx.record("c19", ["--mode", "dump", "--n", n, "--dir", d], "dump.ndjson")
    items = ctx.read_ndjson(p)
    ncode = 0
    for it in items:
        diff = same_desc(describe(it["path"]), {k: v for k, v in it["desc"].items()})
        if diff:
            raise core.ToolError("ELF writer disagrees with readelf on %s in %s" % (diff, it["path"]))
        if "code" in it["desc"]:
            bad = code_check(it["path"], it["desc"])
            if bad:
                raise core.ToolError("generated code of %s disagrees with llvm-objdump: %s" % (it["path"], bad))
            ncode += 1
    shutil.rmtree(d, ignore_errors=True)
    ctx.extra["writer_checked_against_readelf"] = len(items)
    ctx.extra["code_images_checked_against_objdump"] = ncode
    return len(items)


def describe_pe(path):
    """Description of a PE file as reported by llvm-readobj (independent of goblin): machine,
    image base, entry RVA, the header bytes, sections with their raw data, named exports."""
    with open(path, "rb") as f:
        blob = f.read()
    p = subprocess.run(["llvm-readobj", "--file-headers", "--sections", "--coff-exports", path],
                       stdout=subprocess.PIPE, stderr=subprocess.PIPE, text=True)
    if p.returncode != 0:
        raise core.ToolError("llvm-readobj failed on %s: %s" % (path, p.stderr[:300]))
    d = {"sections": [], "exports": []}
    cur, mode = None, None
    for line in p.stdout.splitlines():
        t = line.strip()
        if t.startswith("Section {"):
            cur, mode = {"perm": [False, False, False]}, "sec"
        elif t.startswith("Export {"):
            cur, mode = {}, "exp"
        elif t == "}" and mode:
            if mode == "sec":
                off, raw = cur.pop("off"), cur["rawsize"]
                cur["bytes"] = list(blob[off:off + raw])
                d["sections"].append(cur)
            elif cur.get("name") or any(cur.get("rva", [0])):
                d["exports"].append(cur)
            cur, mode = None, None
        elif ":" in t:
            k, _, v = t.partition(":")
            k, v = k.strip(), v.strip()
            num = lambda x: int(x.split()[0], 16) if x.split()[0].startswith("0x") else int(x.split()[0])
            if mode == "sec":
                if k == "VirtualSize":
                    cur["vsize"] = num(v)
                elif k == "VirtualAddress":
                    cur["rva"] = limbs(num(v))
                elif k == "RawDataSize":
                    cur["rawsize"] = num(v)
                elif k == "PointerToRawData":
                    cur["off"] = num(v)
            elif mode == "exp":
                if k == "Name":
                    cur["name"] = v
                elif k == "RVA":
                    cur["rva"] = limbs(num(v))
            else:
                if k == "Machine":
                    d["machine"] = int(v.split("(")[1].rstrip(")"), 16)
                elif k == "AddressOfEntryPoint":
                    d["entry"] = limbs(num(v))
                elif k == "ImageBase":
                    d["image_base"] = limbs(num(v))
                elif k == "SizeOfHeaders":
                    d["hdr"] = list(blob[:num(v)])
        elif mode == "sec":
            if "IMAGE_SCN_MEM_READ" in t:
                cur["perm"][0] = True
            elif "IMAGE_SCN_MEM_WRITE" in t:
                cur["perm"][1] = True
            elif "IMAGE_SCN_MEM_EXECUTE" in t:
                cur["perm"][2] = True
    return d


def pe_list(ctx):
    items = []
    for fn in sorted(os.listdir(CORPUS)):
        if fn.endswith(".exe") or fn.endswith(".dll"):
            d = describe_pe(os.path.join(CORPUS, fn))
            # prog-r4000.exe is x86 code under a MIPS machine number: not lifted
            items.append({"path": os.path.relpath(os.path.join(CORPUS, fn), core.ROOT), "pdesc": d, "lift": d["machine"] != 0x166})
    if len(items) < 5:
        raise core.ToolError("corpus/c19 has no PE files")
    lp = os.path.join(ctx.work, "pe.json")
    with open(lp, "w") as f:
        json.dump(items, f)
    return lp, len(items)


def corpus_list(ctx):
    items = []
    for fn in sorted(os.listdir(CORPUS)):
        if not fn.endswith(".elf"):
            continue
        path = os.path.join(CORPUS, fn)
        d = describe(path)
        objs = [s["value"] for s in d["symtab"] + d["dynsym"] if s["type"] == 1 and any(s["value"])]
        items.append({"path": path, "rel": os.path.relpath(path, core.ROOT), "desc": d,
                      "users": objs[:1] + [d["entry"]]})
    if len(items) < 7:
        raise core.ToolError("corpus/c19 is incomplete (%d files)" % len(items))
    lp = os.path.join(ctx.work, "files.json")
    with open(lp, "w") as f:
        json.dump(items, f)
    return lp, len(items)


# ------------------------------------------------------------------------------------------------
def mc(ctx):
    ctx.tlc_mc("MC_Loader", "MC_Loader.cfg", key="MC_Loader N=3")
    if ctx.quick:
        ctx.tlc_mc("MC_Elf", "MC_Elf_small.cfg", key="MC_Elf AddrBits=4 memsz<=2")
    else:
        ctx.tlc_mc("MC_Elf", "MC_Elf.cfg", key="MC_Elf AddrBits=4 memsz<=4")


def attach_sessions(results):
    """Give every rejection the session it belongs to (description + file) and the load it was
    observed in, so that a replay file is self-contained and a known-finding predicate can look
    at the description."""
    for r in results:
        if not r.rejects:
            continue
        path = os.path.join(core.ROOT, r.rejects[0]["trace"])
        with open(path) as f:
            lines = [l for l in f if l.strip()]
        for rj in r.rejects:
            i = rj["line"] - 1
            load = None
            while i >= 0:
                if '"ev":"load"' in lines[i] and load is None:
                    load = json.loads(lines[i])
                if '"ev":"begin"' in lines[i]:
                    rj["session"] = json.loads(lines[i])
                    break
                i -= 1
            if load is not None:
                rj["load"] = load


def validate(ctx, paths, shards_per=4):
    # sessions are independent: deal them round-robin over the shards so that the expensive
    # kinds (real files, linked sets) spread evenly and only a few JVMs are started
    sessions = []
    for p in paths:
        with open(p) as f:
            for l in f:
                if not l.strip():
                    continue
                if '"ev":"begin"' in l or not sessions:
                    sessions.append([])
                sessions[-1].append(l)
    n = max(1, min(shards_per, len(sessions)))
    shards = [os.path.join(ctx.work, "shard%02d.ndjson" % i) for i in range(n)]
    for i, sp in enumerate(shards):
        with open(sp, "w") as f:
            for ses in sessions[i::n]:
                f.writelines(ses)
    results = ctx.tlc_trace_many("Trace_C19", shards, timeout=1500, parallel=4 if ctx.quick else 8)
    attach_sessions(results)
    ctx.add_rejects(results)
    kinds, loads, by_src = {}, 0, {}
    for p in paths:
        for e in ctx.read_ndjson(p):
            kinds[e["ev"]] = kinds.get(e["ev"], 0) + 1
            if e["ev"] == "begin":
                ctx.traces += 1
                by_src[e["src"]] = by_src.get(e["src"], 0) + 1
                if len(ctx.samples) < 5 and e["src"] in ("gen", "link", "code", "json") and by_src[e["src"]] == 2:
                    s = dict(e)
                    s.pop("file", None)
                    for o in s.get("objs", []):
                        o.pop("file", None)
                    ctx.samples.append(s)
            elif e["ev"] in ("load", "link"):
                loads += 1
    ctx.extra["events_by_kind"] = kinds
    ctx.extra["sessions_by_source"] = by_src
    ctx.extra["loads"] = loads
    return results


def run(ctx):
    ctx.build(["c19"])
    mc(ctx)
    q = ctx.quick
    writer_check(ctx, 16 if q else 120)
    lp, nfiles = corpus_list(ctx)
    pl, npe = pe_list(ctx)
    ctx.extra["real_files"] = nfiles
    ctx.extra["real_pe_files"] = npe
    jobs = [
        ("c19", ["--mode", "pe", "--list", pl, "--root", core.ROOT], "pe.ndjson"),
        ("c19", ["--mode", "random", "--n", 200 if q else 3000], "random.ndjson"),
        ("c19", ["--mode", "enum", "--maxsz", 1 if q else 3], "enum.ndjson"),
        ("c19", ["--mode", "files", "--list", lp], "files.ndjson"),
        ("c19", ["--mode", "link", "--n", 6 if q else 300, "--dir", os.path.join(ctx.work, "link")], "link.ndjson"),
        ("c19", ["--mode", "code", "--n", 40 if q else 700], "code.ndjson"),
        ("c19", ["--mode", "json", "--n", 80 if q else 1500, "--dir", os.path.join(ctx.work, "json")], "json.ndjson"),
    ]
    paths = ctx.record_many(jobs, parallel=4)
    validate(ctx, paths, 4 if q else 32)
    ctx.extra["bases"] = "0, 0x10000, 2^31 (ELF32) / 2^40 (ELF64)"
    ctx.extra["exhaustive_scope"] = ("every layout of two PT_LOADs with memsz <= %d sliding over each other (all filesz <= memsz), "
                                     "at three bases" % (1 if q else 3))
    ctx.assumptions += [
        "TLC and the CommunityModules Json/IOUtils overrides",
        "the harness' ELF writer (checked on every run against binutils readelf -hlsrW) and, for corpus/c19, "
        "readelf's account of files linked by ld.lld",
        "well-formed images only: filesz <= memsz, file ranges inside the file, no address wrap-around, "
        "EM_386/X86_64/MIPS(32)/PPC(BE)/AARCH64",
    ]


def replay(ctx, path):
    ctx.build(["c19"])
    with open(path) as f:
        rep = json.load(f)
    rj = rep["rejection"]
    inp = os.path.join(ctx.work, "replay_in.json")
    with open(inp, "w") as f:
        json.dump({"session": rj["session"], "loads": [rj["load"]] if "load" in rj else []}, f)
    out = ctx.record("c19", ["--mode", "replay", "--in", inp, "--dir", os.path.join(ctx.work, "replay-link"),
                             "--root", core.ROOT], "replay.ndjson")
    r = ctx.tlc_trace("Trace_C19", out)
    attach_sessions([r])
    ctx.traces += 1
    ctx.add_rejects(r)


def selftest(ctx):
    """Binding self-test: (1) the writer check, (2) corrupt recorded answers (one byte of a
    section, a permission bit, a section address, a dropped section, an entry address, a ghost
    symbol, the architecture name, a dropped / unjustified function or an unclosed call target
    of a lifted program; on single images, linked sets, code images and JSON specifications) and
    expect exactly those events to be rejected in addition to the ones the unchanged trace
    already rejects."""
    ctx.build(["c19"])
    writer_check(ctx, 24)
    p = ctx.record("c19", ["--mode", "random", "--n", 40], "selftest.ndjson")
    p2 = ctx.record("c19", ["--mode", "link", "--n", 6, "--dir", os.path.join(ctx.work, "st-link")], "selftest-link.ndjson")
    p3 = ctx.record("c19", ["--mode", "code", "--n", 7], "selftest-code.ndjson")
    p4 = ctx.record("c19", ["--mode", "json", "--n", 12, "--dir", os.path.join(ctx.work, "st-json")], "selftest-json.ndjson")
    pl, _ = pe_list(ctx)
    p5 = ctx.record("c19", ["--mode", "pe", "--list", pl, "--root", core.ROOT], "selftest-pe.ndjson")
    evs = ctx.read_ndjson(p) + ctx.read_ndjson(p2) + ctx.read_ndjson(p3) + ctx.read_ndjson(p4) + ctx.read_ndjson(p5)
    base_path = p + ".all"
    with open(base_path, "w") as f:
        for e in evs:
            f.write(json.dumps(e) + "\n")
    r0 = ctx.tlc_trace("Trace_C19", base_path)
    already = {rj["line"] for rj in r0.rejects}
    bad = set()
    k = 0
    for i, e in enumerate(evs):
        ln = i + 1
        if ln in already:
            continue
        if e["ev"] == "arch":
            if i % 3 == 0 and "name" in e:
                e["name"] = "mips" if e["name"] != "mips" else "ppc"
                bad.add(ln)
            continue
        if "ok" not in e.get("res", {}):
            continue
        ok = e["res"]["ok"]
        k += 1
        if e["ev"] in ("memory", "lmemory") and ok["sections"]:
            secs = [s for s in ok["sections"] if s["data"]]
            if not secs:
                continue
            s = secs[k % len(secs)]
            how = k % 5
            if how == 0:
                s["data"][len(s["data"]) // 2] ^= 0x40
            elif how == 1:
                s["perm"][k % 3] = not s["perm"][k % 3]
            elif how == 2:
                s["addr"][0] = (s["addr"][0] + 1) % 256
            elif how == 3:
                ok["sections"].remove(s)
            else:
                s["data"].append(0)
            bad.add(ln)
        elif e["ev"] in ("entries", "lentries") and ok and k % 2 == 0:
            ok[0]["addr"][1] ^= 1
            bad.add(ln)
        elif e["ev"] == "symbols" and k % 2 == 1:
            ok.append({"n": "ghost", "a": limbs(0x1234)})
            bad.add(ln)
        elif e["ev"] == "exported" and k % 2 == 0:
            ok.append({"n": "ghost", "a": limbs(0x1234)})            # not an exported definition
            bad.add(ln)
        elif e["ev"] == "pentry" and k % 3 == 0:
            ok[2] ^= 1
            bad.add(ln)
        elif e["ev"] in ("program", "rprogram") and ok["funcs"]:
            how = k % 3
            if how == 0:
                ok["funcs"].pop(0)                      # an entry / a call target without its function
            elif how == 1:
                ok["funcs"].append({"addr": limbs(0x7777000), "name": "ghost", "calls": []})   # not justified
            elif e["ev"] == "rprogram":
                ok["funcs"][0]["calls"].append(limbs(0x7777040))                                  # not closed
            else:
                continue
            bad.add(ln)
    q = p + ".mut"
    with open(q, "w") as f:
        for e in evs:
            f.write(json.dumps(e) + "\n")
    r = ctx.tlc_trace("Trace_C19", q)
    got = {rj["line"] for rj in r.rejects} - already
    core.log("selftest: %d events, %d rejected unchanged, corrupted %d, newly rejected %d, unexpected %d, missed %d" % (
        len(evs), len(already), len(bad), len(got), len(got - bad), len(bad - got)))
    return len(bad) > 20 and got == bad
