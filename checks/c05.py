"""C05 - lifting any bytes is total and yields well-formed, deterministic IL.

MC:      MC_ILWF  (ILWF!SortW == IL!WellFormedExpr/Bits; WellFormedExpr closed under the IL!Mk*
         builders; the complement rule for guards g / not-g from BV/IL by enumeration; unit tests
         of GuardsDeterministic / WellFormedCfg / WellFormedLift, both verdicts)
Binding: recorder c05 lifts (a) the llvm-mc assembled corpus under corpus/c05 and (b) random /
         mutated / prefixed / truncated byte strings with each of the 7 translators x 2
         unsupported-instruction policies at 4 addresses, each lift under catch_unwind and a 2 s
         watchdog; Trace_C05 accepts `err`, rejects `panic` / `timeout`, and requires
         ILWF!WellFormedLift of every `ok` result.
"""
import json
import os
import re

from vlib import core

LEVEL = "model_checking"
CORPUS = os.path.join(core.ROOT, "corpus", "c05")
ARCHS = ["x86", "amd64", "mips", "mipsel", "ppc", "aarch64", "aarch64eb"]


def mc(ctx):
    ctx.tlc_mc("MC_ILWF", "MC_ILWF_L2.cfg", key="MC_ILWF LimbBits=2 depth<=2")
    ctx.tlc_mc("MC_ILWF", "MC_ILWF_L8.cfg", key="MC_ILWF LimbBits=8 depth<=1")


# ---------------------------------------------------------------------------------------------
# labelling of rejections (no verdict is made here: this only names what was rejected so that
# known_findings/C05.json can describe classes by architecture / mnemonic / operand form /
# clause / panic site)
# ---------------------------------------------------------------------------------------------
_FN = re.compile(r"^\s*(?:pub(?:\([a-z:]+\))?\s+)?(?:const\s+)?(?:unsafe\s+)?fn\s+(\w+)")
_src_cache = {}


def _falcon_root():
    try:
        with open(os.path.join(core.HARNESS, "Cargo.toml")) as f:
            m = re.search(r'falcon\s*=\s*\{\s*path\s*=\s*"([^"]+)"', f.read())
        return m.group(1) if m else "/repo"
    except OSError:
        return "/repo"


def enclosing_fn(path, line):
    """name of the function of falcon's source enclosing file:line ('' if unknown)"""
    if not path or not path.startswith("lib/"):
        return ""
    full = os.path.join(_falcon_root(), path)
    if full not in _src_cache:
        try:
            with open(full, errors="replace") as f:
                _src_cache[full] = f.read().splitlines()
        except OSError:
            _src_cache[full] = []
    src = _src_cache[full]
    for i in range(min(line, len(src)) - 1, -1, -1):
        m = _FN.match(src[i])
        if m:
            return m.group(1)
    return ""


def annotate(rj):
    """attach to the rejected event: `at` = labelling disassembly of the instruction whose graph
    was rejected (or of the culprit of a panic), and loc.fn = enclosing falcon function"""
    e = rj.get("event")
    if not isinstance(e, dict):
        return
    labs = e.get("lab", [])
    at = None
    exp = rj.get("expected") if isinstance(rj.get("expected"), dict) else {}
    if "ins" in exp and "ok" in e.get("res", {}):
        try:
            off = e["res"]["ok"]["ins"][exp["ins"] - 1]["off"]
        except (IndexError, KeyError, TypeError):
            off = None
        if off is not None:
            # the MIPS lifter tags the graph of a branch with address + 1
            for o in (off, off - 1):
                hit = [l for l in labs if l.get("o") == o and l.get("mn") != "(undecodable)"]
                if hit:
                    at = hit[0]
                    break
    elif rj.get("why") in ("succ-guards", "succ-guard-width"):
        # successors come from the instruction that ends the block
        hit = [l for l in labs if l.get("mn") != "(undecodable)"]
        if hit:
            at = hit[-1]
    elif isinstance(e.get("culprit"), dict) and e["culprit"].get("i", -1) >= 0:
        at = {k: e["culprit"][k] for k in ("mn", "ops", "form") if k in e["culprit"]}
    e["at"] = at or {"mn": "?", "ops": "", "form": ""}
    e["mns"] = [l.get("mn") for l in labs]
    e["pairs"] = ["%s+%s" % (a.get("mn"), b.get("mn")) for a, b in zip(labs, labs[1:])]   # consecutive instructions
    if "loc" in e:
        e["loc"]["fn"] = enclosing_fn(e["loc"].get("file"), e["loc"].get("line", 0))


# ---------------------------------------------------------------------------------------------
def _stats(ctx, paths):
    tot = {}
    for p in paths:
        sp = p + ".stats.json"
        if os.path.exists(sp):
            with open(sp) as f:
                for k, v in json.load(f).items():
                    if k.startswith("P|"):
                        continue
                    tot[k] = tot.get(k, 0) + v
    return tot


def validate(ctx, paths, nshards):
    shards = []
    for p in paths:
        shards += ctx.shard(p, nshards)
    results = ctx.tlc_trace_many("Trace_C05", shards, parallel=min(core.NCPU, 16), timeout=1500, heap="3g")
    outcomes = {}
    for p in paths:
        for e in ctx.read_ndjson(p):
            k = "%s:%s" % (e["arch"], sorted(e["res"].keys())[0])
            outcomes[k] = outcomes.get(k, 0) + 1
            ctx.traces += 1
            if len(ctx.samples) < 3 and "ok" in e["res"] and e["kind"] == "corpus" and len(json.dumps(e)) < 1500:
                if all(s.get("arch") != e["arch"] for s in ctx.samples):
                    ctx.samples.append(e)
    for r in results:
        for rj in r.rejects:
            annotate(rj)
    ctx.add_rejects(results)
    return outcomes


def run(ctx):
    ctx.build(["c05"])
    mc(ctx)
    q = ctx.quick
    nproc = 4 if q else 8
    per = 16000 if q else 600000          # random lifts per recorder process
    jobs = [("c05", ["--mode", "corpus", "--corpus", CORPUS], "corpus.ndjson", {"timeout": 900})]
    for i in range(nproc):
        jobs.append(("c05", ["--mode", "random", "--corpus", CORPUS, "--n", per, "--stream", i,
                             "--max-err", 40 if q else 150], "random%02d.ndjson" % i, {"timeout": 3000}))
    paths = ctx.record_many(jobs, parallel=min(core.NCPU, len(jobs)))
    outcomes = validate(ctx, paths, 2 if q else 4)
    st = _stats(ctx, paths)
    ctx.extra["lifts_performed"] = sum(v for k, v in st.items() if k.startswith("lifts:"))
    ctx.extra["lifts_by_translator"] = {k[6:]: v for k, v in st.items() if k.startswith("lifts:")}
    ctx.extra["lifts_by_kind"] = {k[5:]: v for k, v in st.items() if k.startswith("kind:")}
    ctx.extra["lift_outcomes"] = {
        "ok": sum(v for k, v in st.items() if k.startswith("ok:")),
        "err": sum(v for k, v in st.items() if k.startswith("err:")),
        "panic": sum(v for k, v in st.items() if k.startswith("panic:")),
        "timeout": sum(v for k, v in st.items() if k.startswith("timeout:")),
    }
    ctx.extra["events_validated_by_outcome"] = outcomes
    ctx.extra["instruction_graphs_validated"] = st.get("graphs_logged", 0)
    ctx.extra["watchdog_expiries_not_reproduced"] = st.get("timeouts_retried", 0) - sum(v for k, v in st.items() if k.startswith("timeout:"))
    ctx.extra["not_logged"] = {k: st.get(k, 0) for k in ("deduped_ok", "deduped_graphs", "capped_err", "deduped_panic")}
    # results whose projection exceeds 400 kB are counted, not validated (none on the current tree)
    ctx.extra["oversized_results_not_validated"] = sum(v for k, v in st.items() if k.startswith("oversized:"))
    ctx.extra["bounds"] = {
        "addresses": ["0x0", "0x1000", "0xfffffff8", "0x8000000000000000"],
        "bytes": "fixed-width ISAs: 1..8 bytes (one or two words, short and odd lengths); x86: 1..15 bytes",
        "guard_valuations": "all when the guards of a block mention <= 12 bits; else complement rule, or boundary product set + 24 recorded pseudo-random valuations",
        "watchdog_ms": 2000,
    }
    ctx.assumptions += [
        "TLC and the CommunityModules Json/IOUtils overrides",
        "harness projection of il::ControlFlowGraph / il::Operation / il::Expression to JSON",
        "only IL shapes not logged before by the same recorder process are validated (the shape key keeps structure, widths and guards; it blanks constants and scalar names outside guards, which WellFormedLift does not read)",
        "capstone / bad64 / llvm-mc are used only to assemble and to label inputs, never to judge",
    ]


def replay(ctx, path):
    ctx.build(["c05"])
    with open(path) as f:
        rep = json.load(f)
    ev = rep["rejection"].get("event", rep["rejection"])
    inp = os.path.join(ctx.work, "replay_in.ndjson")
    with open(inp, "w") as f:
        f.write(json.dumps(ev) + "\n")
    out = ctx.record("c05", ["--mode", "replay", "--in", inp], "replay.ndjson")
    r = ctx.tlc_trace("Trace_C05", out)
    ctx.traces += 1
    for rj in r.rejects:
        annotate(rj)
    ctx.add_rejects(r)


# ---------------------------------------------------------------------------------------------
def _walk_exprs(v, fn):
    """apply fn to every expression record (dict with "k") below v"""
    if isinstance(v, dict):
        if "k" in v:
            fn(v)
        for x in v.values():
            _walk_exprs(x, fn)
    elif isinstance(v, list):
        for x in v:
            _walk_exprs(x, fn)


def _corrupt(e, how):
    """returns True iff the event was corrupted in a way the property forbids"""
    res = e["res"]
    if how == "panic" and "err" in res:
        e["res"] = {"panic": "corrupted"}
        return True
    if how == "timeout" and "err" in res:
        e["res"] = {"timeout": 2000}
        return True
    if "ok" not in res or not res["ok"]["ins"]:
        return False
    g = res["ok"]["ins"][0]
    if how == "exit":
        g["exit"] = -1
        return True
    if how == "entry":
        g["entry"] = 9999
        return True
    if how == "assign":
        for b in g["blocks"]:
            for o in b["ops"]:
                if o["k"] == "assign":
                    o["dst"]["w"] += 1
                    return True
    if how == "load":
        for b in g["blocks"]:
            for o in b["ops"]:
                if o["k"] == "load":
                    o["dst"]["w"] = 12
                    return True
    if how == "sort":
        for b in g["blocks"]:
            for o in b["ops"]:
                if o["k"] == "assign" and o["src"]["k"] in ("add", "sub", "and", "or", "xor") and o["src"]["b"]["k"] in ("const", "scalar"):
                    o["src"]["b"]["w"] += 8
                    if o["src"]["b"]["k"] == "const":
                        o["src"]["b"]["v"] = o["src"]["b"]["v"] + [0]
                    return True
    if how == "guard":          # make a complementary pair non-complementary: (g == 0) -> (g == 1)
        for ed in g["edges"]:
            c = ed["c"]
            if c.get("k") == "cmpeq" and c["b"].get("k") == "const" and c["b"]["w"] == 1 and c["b"]["v"] == [0]:
                c["b"]["v"] = [1]
                return True
    if how == "succ":
        s = res["ok"]["succ"]
        if len(s) == 2 and s[0]["c"].get("k") != "none":
            s[1]["c"] = s[0]["c"]
            return True
        if len(s) == 1 and s[0]["c"].get("k") == "none":
            s.append({"c": {"k": "none"}})
            return True
    if how == "edge":
        if g["edges"]:
            g["edges"][0]["t"] = 9999
            return True
    if how == "dead":           # drop the out-edges of a non-exit block
        heads = {ed["h"] for ed in g["edges"]}
        for h in heads:
            if h != g["exit"]:
                g["edges"] = [ed for ed in g["edges"] if ed["h"] != h]
                return True
    return False


def selftest(ctx):
    """Binding self-test: corrupt recorded events (each well-formedness clause, determinism of
    guards and successors, panic / timeout outcomes) and expect exactly those to be rejected, on
    top of whatever the unchanged trace already has rejected."""
    ctx.build(["c05"])
    p1 = ctx.record("c05", ["--mode", "corpus", "--corpus", CORPUS, "--arch", "x86", "--dedupe", 0], "selftest_x86.ndjson")
    p2 = ctx.record("c05", ["--mode", "corpus", "--corpus", CORPUS, "--arch", "aarch64", "--dedupe", 0], "selftest_a64.ndjson")
    p3 = ctx.record("c05", ["--mode", "corpus", "--corpus", CORPUS, "--arch", "mipsel", "--dedupe", 0], "selftest_mips.ndjson")
    evs = ctx.read_ndjson(p1) + ctx.read_ndjson(p2) + ctx.read_ndjson(p3)
    evs = evs[::5][:1800]
    base_path = os.path.join(ctx.work, "selftest_base.ndjson")
    with open(base_path, "w") as f:
        for e in evs:
            f.write(json.dumps(e) + "\n")
    base = ctx.tlc_trace("Trace_C05", base_path)
    base_bad = {rj["line"] for rj in base.rejects}
    hows = ["panic", "timeout", "exit", "entry", "assign", "load", "sort", "guard", "succ", "edge", "dead"]
    bad, by_how = set(), {h: 0 for h in hows}
    for i, e in enumerate(evs):
        if (i + 1) in base_bad or i % 3 != 0:
            continue
        # the applicable corruption used least so far
        for how in sorted(hows, key=lambda h: by_how[h]):
            if _corrupt(e, how):
                bad.add(i + 1)
                by_how[how] += 1
                break
    mut_path = os.path.join(ctx.work, "selftest_mut.ndjson")
    with open(mut_path, "w") as f:
        for e in evs:
            f.write(json.dumps(e) + "\n")
    r = ctx.tlc_trace("Trace_C05", mut_path)
    got = {rj["line"] for rj in r.rejects}
    want = bad | base_bad
    core.log("selftest: %d events, %d rejected unchanged, corrupted %d %s, rejected %d, unexpected %d, missed %d" % (
        len(evs), len(base_bad), len(bad), by_how, len(got), len(got - want), len(want - got)))
    if want - got:
        core.log("missed lines: %s" % sorted(want - got)[:10])
    ok = len(bad) > 100 and all(by_how.get(h, 0) > 0 for h in hows) and got == want
    # the watchdog path of the recorder itself: a lift that hangs (test hook) must come out as a
    # `timeout` event that Trace_C05 rejects, and the recorder must carry on after it
    inp = os.path.join(ctx.work, "selftest_hang_in.ndjson")
    with open(inp, "w") as f:
        for b in ("60000000", "7c632a14", "38600000"):
            f.write(json.dumps({"ev": "lift", "arch": "ppc", "intr": 0, "addr": "0", "bytes": b}) + "\n")
    hp = ctx.record("c05", ["--mode", "replay", "--in", inp], "selftest_hang.ndjson", extra_env={"C05_FAKE_HANG": "7c632a14"})
    hr = ctx.tlc_trace("Trace_C05", hp)
    hang_ok = [(rj["line"], rj["why"]) for rj in hr.rejects] == [(2, "timeout")] and len(ctx.read_ndjson(hp)) == 3
    core.log("selftest: hanging lift -> %s" % [(rj["line"], rj["why"]) for rj in hr.rejects])
    return ok and hang_ok
