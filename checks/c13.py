"""C13 - constant propagation never reports a value an execution contradicts.

Binding: recorder c13 runs analysis::constants::constants() on generated functions (half of them
"initialised": every scalar assigned before any read, where the analysis must complete) and
exports function + reported constants + Constants::eval results; X_C13 (spec/explore) lets TLC
explore every execution of each function under ILSem (all values of the control scalars, sampled
data scalars, call havoc at indirect branches and intrinsics, loops bounded by a step budget)
with the exported claims as invariants.
"""
import json
import os

from checks import xcommon
from vlib import core

LEVEL = "model_checking"


def run(ctx):
    ctx.build(["c13"])
    paths, rs = xcommon.explore(ctx, "c13", "X_C13", 300, 4000, lifted=True)
    claims = evals = 0
    modes = {}
    for p in paths:
        with open(p) as f:
            for q in json.load(f)["progs"]:
                claims += sum(len(c["consts"]) for c in q["claims"])
                evals += sum(1 for e in q["evals"] if e["res"]["k"] == "some")
                k = q["mode"] + ":" + q["outcome"]["k"]
                modes[k] = modes.get(k, 0) + 1
    ctx.extra["constant_claims_checked"] = claims
    if claims == 0:
        # soundness holds trivially when the analysis reports nothing: not a violation, but say so loudly
        print("NOTE: property=C13 the analysis reported no constant in %d programs: the soundness check is vacuous" % ctx.traces)
        ctx.extra["vacuous"] = True
    ctx.extra["eval_claims_checked"] = evals
    ctx.extra["programs_by_mode_and_outcome"] = modes
    ctx.assumptions += ["ILSem is the semantics of the IL (bound to the executor by C07)",
                        "data scalars are sampled (2 valuations), control scalars enumerated; loops bounded by 40 steps",
                        "an indirect branch or intrinsic havocs the scalars it may write with one of 2 listed valuations"]


def replay(ctx, path):
    xcommon.replay(ctx, path, "c13", "X_C13")


def selftest(ctx):
    """Corrupt exported claims (a wrong constant; a wrong eval result; an 'err' outcome in init mode)
    and expect exactly those to be reported."""
    ctx.build(["c13"])
    p = ctx.record("c13", ["--mode", "random", "--n", 30], "selftest.json")
    with open(p) as f:
        d = json.load(f)
    expect = set()
    for pi, q in enumerate(d["progs"], 1):
        if q["outcome"]["k"] != "ok":
            continue
        if pi % 3 == 0:
            # claim a constant for a scalar that the entry block assigns: falsify its value
            for c in q["claims"]:
                if c["consts"] and c["loc"]["k"] == "ins":
                    c["consts"][0]["v"][0] ^= 1
                    break
        elif pi % 3 == 1 and q["mode"] == "init":
            q["outcome"] = {"k": "err", "err": "FixedPointOrdering"}
            q["claims"], q["evals"] = [], []
            expect.add(pi)
    q = p + ".mut"
    with open(q, "w") as f:
        json.dump(d, f)
    r = ctx.tlc_explore("X_C13", q)
    got_completion = {rj["prog"] for rj in r.rejects if rj["why"] == "completion"}
    got_const = {rj["prog"] for rj in r.rejects if rj["why"] in ("const", "eval")}
    core.log("selftest: completion expected %s got %s; const corruptions detected in %d programs" % (
        sorted(expect), sorted(got_completion), len(got_const)))
    return expect == got_completion and len(expect) >= 2 and len(got_const) >= 2
