#!/bin/sh
# Second lifted corpus (all program explorations): short functions whose lifting exercises the
# lifters' multi-block instruction graphs (cmovcc, setcc, rep, slt, movz, delay slots, CR fields,
# counted loops), assembled with llvm-mc (independent encoder).  The hex files are committed; this
# script is only needed to change the templates.  File name: <architecture>_<name>.hex
set -e
cd "$(dirname "$0")"
asm() { # triple, extra flags, name, assembly text
  printf '%s\n' "$4" | llvm-mc-14 -triple="$1" $2 -filetype=obj -o /tmp/lifted.o
  llvm-objcopy-14 -O binary --only-section=.text /tmp/lifted.o /tmp/lifted.bin
  od -An -v -tx1 /tmp/lifted.bin | tr -d ' \n' > "$3.hex"; echo >> "$3.hex"
  rm -f /tmp/lifted.o /tmp/lifted.bin
}
asm x86_64 "" amd64_cmov '
 mov $5, %eax
 mov $7, %ecx
 cmp %rdi, %rsi
 cmovl %ecx, %eax
 setg %dl
 movzbl %dl, %edx
 add %edx, %eax
 ret'
asm x86_64 "" amd64_repstos '
 push %rdi
 lea -64(%rsp), %rdi
 mov $3, %ecx
 xor %eax, %eax
 cld
 rep stosb
 pop %rdi
 ret'
asm x86_64 "" amd64_switch '
 mov $1, %eax
 cmp $1, %edi
 je 1f
 cmp $2, %edi
 je 2f
 mov $9, %eax
 jmp 3f
1:
 mov $4, %ebx
 jmp 3f
2:
 mov $4, %ebx
 add %ebx, %eax
3:
 mov %eax, %edx
 ret'
asm x86_64 "" amd64_dead '
 mov $1, %eax
 mov $2, %eax
 mov %rdi, %rbx
 xor %ebx, %ebx
 lea 8(%rax,%rbx,2), %rcx
 test %rsi, %rsi
 jz 1f
 mov %rcx, (%rsp)
1:
 mov %ecx, %eax
 ret'
asm i386 "" x86_cmov '
 mov $3, %eax
 cmp %ebx, %ecx
 cmovb %ebx, %eax
 sbb %edx, %edx
 sete %dl
 shl $2, %eax
 ret'
asm i386 "" x86_loopz '
 mov $2, %ecx
 xor %eax, %eax
1:
 inc %eax
 push %eax
 loop 1b
 add $8, %esp
 ret'
asm mips "" mips_slt '
 .set noreorder
 slt $t0, $a0, $a1
 movz $v0, $a2, $t0
 sltiu $t1, $a0, 5
 beqz $t1, 1f
 addiu $v1, $zero, 3
 addiu $v1, $v1, 1
1:
 addu $v0, $v0, $v1
 jr $ra
 nop'
asm mips "" mips_loop '
 .set noreorder
 addiu $t0, $zero, 2
 addiu $sp, $sp, -16
1:
 sw $t0, 4($sp)
 addiu $t0, $t0, -1
 bnez $t0, 1b
 lw $t1, 4($sp)
 addiu $sp, $sp, 16
 jr $ra
 move $v0, $t1'
asm mipsel "" mipsel_slt '
 .set noreorder
 sltu $t0, $a1, $a0
 movn $v0, $a2, $t0
 slti $t2, $a3, -1
 bne $t2, $zero, 1f
 lui $v1, 1
 ori $v1, $v1, 2
1:
 subu $v0, $v0, $v1
 jr $ra
 nop'
# (falcon's PPC lifter refuses conditional branches: straight-line code only)
asm powerpc "" ppc_cr '
 li 6, 0
 cmpwi 3, 0
 addi 6, 6, 1
 cmplwi 1, 4, 7
 addis 6, 6, 1
 lis 7, 2
 add 3, 6, 7
 mflr 0
 mtlr 0
 blr'
asm powerpc "" ppc_rot '
 rlwinm 4, 3, 4, 8, 23
 slwi 5, 4, 2
 srawi 5, 5, 1
 addze 5, 5
 subf 4, 5, 4
 stw 4, -8(1)
 lwz 3, -8(1)
 lbz 6, -5(1)
 blr'
asm aarch64 "" aarch64_loop '
 mov x0, #2
1:
 sub sp, sp, #16
 str x0, [sp, #8]
 subs x0, x0, #1
 b.ne 1b
 ldr x1, [sp, #8]
 add sp, sp, #32
 ret'
asm aarch64 "" aarch64_tbz '
 mov w1, #5
 tbz w0, #3, 1f
 add w1, w1, #1
 cbnz x2, 2f
1:
 mov w1, #6
2:
 adds x3, x1, x1
 b.cs 3f
 mov x3, #0
3:
 ret'
asm aarch64_be "" aarch64eb_ldst '
 sub sp, sp, #16
 mov w1, #258
 strh w1, [sp, #2]
 ldrb w2, [sp, #2]
 ldrsb x3, [sp, #3]
 add sp, sp, #16
 ret'
# sub-register updates of the stack pointer (upper half cleared): the offset must become unknown
asm x86_64 "" amd64_esp '
 push %rbx
 sub $8, %esp
 add $8, %rsp
 pop %rbx
 ret'
asm aarch64 "" aarch64_wsp '
 sub sp, sp, #32
 add wsp, wsp, #16
 add sp, sp, #16
 ret'
