#!/usr/bin/env python3
"""Transcription of the expectations hard-coded in /repo/lib/translator/aarch64/test.rs into
single-instruction instances for the C03 recorder (`c03 --mode corpus`).  Run once; the output
repo_tests.ndjson is committed.  Each line is an `inst` event without results plus a `claim`:
the components the repository's test asserts, with the values it asserts.  Trace_C03 compares
the SPECIFICATION (spec/A64.tla) with the claim - an independent sanity check of the
transcription of the Arm ARM by expectations written by other authors - and, as for every
instance, the lifted code with the specification.

mov_velem (three instructions, one assertion) is split into its three steps.  The other
tests that run several instructions are cut down to the instruction they are about (the
conditional/compare/test branches: claim = next pc, derived from "x0 == 45 <=> branch taken").
`disputed` marks claims where the repository's expectation contradicts the Arm ARM (the
specification must then DISAGREE with the claim; see parts/C03.design.md).
"""
import json

M64 = (1 << 64) - 1
BASE = 0xeed85f2300


def l(v, n=8):
    return list(int(v).to_bytes(n, "little"))


def inst(name, word, regs=None, mem=None, claim=None, flags=(0, 0, 0, 0), q=None, addr=0x1000, pads=(), disputed=None,
         mbase=BASE - 32):
    x = [0] * 31
    sp = 0
    for k, v in (regs or {}).items():
        if k == "sp":
            sp = v
        else:
            x[int(k[1:])] = v & M64
    window = [0] * 96
    for (a, v, bits) in (mem or []):
        b = int(v).to_bytes(bits // 8, "big")          # the tests use Endian::Big data memory
        for i, byte in enumerate(b):
            window[a - mbase + i] = byte
    pre = {"x": [l(v) for v in x], "sp": l(sp), "f": list(flags), "mbase": l(mbase), "mem": window}
    if q is not None:
        qq = [0] * 32
        for k, v in q.items():
            qq[k] = v
        pre["q"] = [l(v, 16) for v in qq]
    e = {"ev": "inst", "cls": "repo:" + name, "word": l(word, 4), "big": True, "addr": l(addr),
         "pads": [l(p) for p in pads], "pre": pre, "claim": claim}
    if disputed:
        e["disputed"] = disputed
    return e


def cx(r, v):
    return {"c": "x%d" % r, "v": l(v)}


def cf(name, v):
    return {"c": name, "v": [v]}


def cmem(mbase, stores):
    """claim on the whole window: zero except the big-endian values the test reads back"""
    window = [0] * 96
    for (a, v, bits) in stores:
        for i, byte in enumerate(int(v).to_bytes(bits // 8, "big")):
            window[a - mbase + i] = byte
    return {"c": "mem", "v": window}


out = []
A = out.append
A(inst("add_xn#1", 0x8b020020, {"x1": 1, "x2": 3}, claim=[cx(0, 4)]))
A(inst("add_xn#2", 0x8b020020, {"x1": 42, "x2": M64}, claim=[cx(0, 41)]))
A(inst("add_xn_lsl", 0x8b0073e0, {"x0": 0xbeef000000}, claim=[cx(0, 0xeef0000000000000)]))
A(inst("add_xn_lsr", 0x8b4063e0, {"x0": (-0x12345678) & M64}, claim=[cx(0, 0x000000ffffffffed)]))
A(inst("add_xn_asr", 0x8b8063e0, {"x0": (-0x12345678) & M64}, claim=[cx(0, 0xffffffffffffffed)]))
A(inst("add_xn_sxtx", 0x8b20ec20, {"x0": 0x1111444422228888, "x1": 0}, claim=[cx(0, 0x888a222111144440)]))
A(inst("add_xn_wn_sxtw", 0x8b20cc20, {"x0": 0x11114444ffff8888, "x1": 0}, claim=[cx(0, 0xfffffffffffc4440)]))
A(inst("add_xn_wn_sxth", 0x8b20ac20, {"x0": 0xffff00000000fedc, "x1": 0}, claim=[cx(0, 0xfffffffffffff6e0)]))
A(inst("add_xn_wn_sxtb", 0x8b208c20, {"x0": 0xffff00000000fedc, "x1": 0}, claim=[cx(0, 0xfffffffffffffee0)]))
A(inst("add_xn_uxtx", 0x8b206c20, {"x0": 0x1111444422228888, "x1": 0}, claim=[cx(0, 0x888a222111144440)]))
A(inst("add_xn_uxtw", 0x8b204c20, {"x0": 0x11114444ffff8888, "x1": 0}, claim=[cx(0, 0x00000007fffc4440)]))
A(inst("add_xn_uxth", 0x8b202c20, {"x0": 0xffff00000000fedc, "x1": 0}, claim=[cx(0, 0x000000000007f6e0)]))
A(inst("add_xn_uxtb", 0x8b200c20, {"x0": 0xffff00000000fedc, "x1": 0}, claim=[cx(0, 0x00000000000006e0)]))
for k, ((a, b), (n, z, c, v)) in enumerate([
        ((0xffffffffffffffff, 1), (0, 1, 1, 0)), ((0, 0), (0, 1, 0, 0)),
        ((0xcf5f3a38fad546ee, 0x6bdcb93bd7ac49a5), (0, 0, 1, 0)), ((1, 2), (0, 0, 0, 0)),
        ((0x7fffffffffffffff, 1), (1, 0, 0, 1))]):
    A(inst("adds_xn#%d" % k, 0xab020020, {"x1": a, "x2": b},
           claim=[cx(0, (a + b) & M64), cf("n", n), cf("z", z), cf("c", c), cf("v", v)]))
for k, ((a, b), (n, z, c, v)) in enumerate([
        ((0xffffffffffffffff, 1), (1, 0, 0, 0)), ((0, 0), (0, 1, 0, 0)),
        ((0xcf5f3a38fad546ee, 0x6bdcb93bd7ac49a5), (0, 0, 0, 1)), ((1, 2), (1, 0, 1, 0))]):
    A(inst("subs_xn#%d" % k, 0xeb020020, {"x1": a, "x2": b},
           claim=[cx(0, (a - b) & M64), cf("n", n), cf("z", z), cf("v", v)]))
    # the C expectation is asserted separately: the test wants C = borrow, the Arm ARM NOT borrow
    A(inst("subs_xn#%d.c" % k, 0xeb020020, {"x1": a, "x2": b}, claim=[cf("c", c)],
           disputed="test.rs subs_xn expects C = (lhs < rhs); AddWithCarry(x, NOT(y), 1) gives C = (lhs >= rhs)"))
A(inst("sub_xn", 0xcb020020, {"x0": 0x67eccf9f6c8e4aee, "x1": 0x297feae8ee50966c, "x2": 0x968855acc9024e5c},
       claim=[cx(0, 0x92f7953c254e4810)]))

D1 = (BASE, 0xdeadbeef12345678, 64)
D2 = (BASE + 8, 0xfa5c9e60ce124c27, 64)
D3 = (BASE + 8, 0x542fbb5cf6b74d14, 64)
R9 = {"x9": BASE}
A(inst("ldp_xn_xn", 0xa9400d2f, R9, [D1, D2], [cx(15, 0xdeadbeef12345678), cx(3, 0xfa5c9e60ce124c27)]))
A(inst("ldp_wn_wn", 0x29400d2f, R9, [D1], [cx(15, 0xdeadbeef), cx(3, 0x12345678)]))
A(inst("ldpsw_xn_xn", 0x69400d2f, R9, [D1, D2], [cx(15, 0xffffffffdeadbeef), cx(3, 0x12345678)]))
A(inst("ldr_xn_xn", 0xf940012f, R9, [D1], [cx(15, 0xdeadbeef12345678)]))
A(inst("ldr_wn_xn", 0xb940012f, R9, [D1], [cx(15, 0xdeadbeef)]))
A(inst("ldrh_wn_xn", 0x7940012f, R9, [D1], [cx(15, 0xdead)]))
A(inst("ldrb_wn_xn", 0x3940012f, R9, [D1], [cx(15, 0xde)]))
A(inst("ldr_xn_xn_preindex", 0xf940052f, R9, [D1, D3], [cx(15, 0x542fbb5cf6b74d14), cx(9, BASE)]))
A(inst("ldr_xn_xn_preindex_wb", 0xf8408d2f, R9, [D1, D3], [cx(15, 0x542fbb5cf6b74d14), cx(9, BASE + 8)]))
A(inst("ldr_xn_xn_postindex_wb", 0xf840852f, R9, [D1, D3], [cx(15, 0xdeadbeef12345678), cx(9, BASE + 8)]))
A(inst("ldr_qn_xn", 0x3dc0012f, R9, [D1, D3], [{"c": "v15", "v": l(0xdeadbeef12345678542fbb5cf6b74d14, 16)}], q={}))
A(inst("ldr_xn_xn_xn_shift", 0xf868792f, {"x9": BASE, "x8": 3}, [(BASE + 24, 0xdeadbeef12345678, 64)], [cx(15, 0xdeadbeef12345678)]))
A(inst("ldr_xn_xn_wn_sxtw", 0xf868c92f, {"x9": BASE, "x8": 0xfffffff0}, [(BASE - 16, 0xdeadbeef12345678, 64)], [cx(15, 0xdeadbeef12345678)]))
A(inst("ldr_xn_xn_wn_sxtw_shift", 0xf868d92f, {"x9": BASE, "x8": 0xffffffff}, [(BASE - 8, 0xdeadbeef12345678, 64)], [cx(15, 0xdeadbeef12345678)]))
UB = BASE + (0xffffffff << 3)
A(inst("ldr_xn_xn_wn_uxtw_shift", 0xf868592f, {"x9": BASE, "x8": 0xffffffff}, [(UB, 0xdeadbeef12345678, 64)], [cx(15, 0xdeadbeef12345678)], mbase=UB - 32))
A(inst("ldrsw_xn_xn", 0xb980012f, R9, [D1], [cx(15, 0xffffffffdeadbeef)]))
A(inst("ldrsh_xn_xn", 0x7980012f, R9, [D1], [cx(15, 0xffffffffffffdead)]))
A(inst("ldrsb_xn_xn", 0x3980012f, R9, [D1], [cx(15, 0xffffffffffffffde)]))
A(inst("ldrsh_wn_xn", 0x79c0012f, R9, [D1], [cx(15, 0xffffdead)]))
A(inst("ldrsb_wn_xn", 0x39c0012f, R9, [D1], [cx(15, 0xffffffde)]))
A(inst("ldur_xn_xn", 0xf840312f, R9, [(BASE + 3, 0xdeadbeef12345678, 64)], [cx(15, 0xdeadbeef12345678)]))

# b_cc: 0x54000040 | cond is `b.<cond> .+8`; taken <=> the test's closure
conds = [lambda n, z, c, v: z == 1, lambda n, z, c, v: z == 0, lambda n, z, c, v: c == 1, lambda n, z, c, v: c == 0,
         lambda n, z, c, v: n == 1, lambda n, z, c, v: n == 0, lambda n, z, c, v: v == 1, lambda n, z, c, v: v == 0,
         lambda n, z, c, v: c == 1 and z == 0, lambda n, z, c, v: not (c == 1 and z == 0),
         lambda n, z, c, v: n == v, lambda n, z, c, v: n != v, lambda n, z, c, v: z == 0 and n == v,
         lambda n, z, c, v: not (z == 0 and n == v), lambda n, z, c, v: True, lambda n, z, c, v: True]
for cond in range(16):
    for nzcv in range(16):
        n, z, c, v = nzcv & 1, (nzcv >> 1) & 1, (nzcv >> 2) & 1, (nzcv >> 3) & 1
        taken = conds[cond](n, z, c, v)
        A(inst("b_cc#%d.%d" % (cond, nzcv), 0x54000040 | cond, flags=(n, z, c, v), addr=0x1004,
               claim=[{"c": "pc", "v": l(0x100c if taken else 0x1008)}], pads=[0x100c]))
for name, word, x4, taken in [("cbnz#0", 0xb5000044, 0, False), ("cbnz#1", 0xb5000044, M64, True),
                              ("cbz#0", 0xb4000044, 0, True), ("cbz#1", 0xb4000044, M64, False),
                              ("tbnz#0", 0x37800044, 0xdeacbeef, False), ("tbnz#1", 0x37800044, 0xdeadbeef, True),
                              ("tbz#0", 0x36800044, 0xdeacbeef, True), ("tbz#1", 0x36800044, 0xdeadbeef, False)]:
    A(inst(name, word, {"x4": x4}, addr=0x1004, claim=[{"c": "pc", "v": l(0x100c if taken else 0x1008)}], pads=[0x100c]))
# bl_ret: `bl .+12` at 4 writes x30 = 8 (and goes to 0x10); blr x1 / br x1 with x1 = 8 go to 8
A(inst("bl_ret.bl", 0x94000003, addr=4, claim=[cx(30, 8), {"c": "pc", "v": l(0x10)}], pads=[0x10]))
A(inst("bl_ret.ret", 0xd65f03c0, {"x30": 8}, addr=0x14, claim=[{"c": "pc", "v": l(8)}], pads=[8]))
A(inst("blr", 0xd63f0020, {"x1": 8, "x30": 4}, addr=0, claim=[{"c": "pc", "v": l(8)}], pads=[8]))
A(inst("br", 0xd61f0020, {"x1": 8}, addr=0, claim=[{"c": "pc", "v": l(8)}], pads=[8]))

S15 = {"x15": 0xdeadbeef12345678, "x28": 0x5d90e16ef8ea43ce, "x9": BASE}
MB = BASE - 32
A(inst("stp_xn_xn", 0xa900712f, S15, claim=[cmem(MB, [(BASE, 0xdeadbeef12345678, 64), (BASE + 8, 0x5d90e16ef8ea43ce, 64)])]))
A(inst("stp_wn_wn", 0x2900712f, S15, claim=[cmem(MB, [(BASE, 0x12345678f8ea43ce, 64)])]))
A(inst("str_xn_xn", 0xf900012f, S15, claim=[cmem(MB, [(BASE, 0xdeadbeef12345678, 64)])]))
A(inst("str_wn_xn", 0xb900012f, S15, claim=[cmem(MB, [(BASE, 0x1234567800000000, 64)])]))
A(inst("strb_wn_xn", 0x3900012f, S15, claim=[cmem(MB, [(BASE, 0x7800000000000000, 64)])]))
A(inst("strh_wn_xn", 0x7900012f, S15, claim=[cmem(MB, [(BASE, 0x5678000000000000, 64)])]))
A(inst("stur_wn_xn", 0xb800312f, S15, claim=[cmem(MB, [(BASE + 3, 0x1234567800000000, 64)])]))
A(inst("str_qn_xn", 0x3d80012f, {"x9": BASE}, q={15: 0xdeadbeef12345678}, claim=[cmem(MB, [(BASE, 0xdeadbeef12345678, 128)])]))

# mov_velem runs three instructions and asserts only the last result (x29 == 0x62baced3).  The two
# intermediate V31 values are derived by hand from the Arm ARM (INS general writes element d[0], INS element
# copies byte 2 to byte 6); the chain must end in the value the repository's test asserts.
V31_0 = 0x51aad564c6b04cbd
V31_1 = 0x62d8ced391ba44f3
V31_2 = 0x62baced391ba44f3
CV = lambda v: {"c": "v31", "v": l(v, 16)}
A(inst("mov_velem.1", 0x4e081c1f, {"x0": 0x62d8ced391ba44f3}, q={31: V31_0}, claim=[CV(V31_1)]))
A(inst("mov_velem.2", 0x6e0d17ff, {"x0": 0x62d8ced391ba44f3}, q={31: V31_1}, claim=[CV(V31_2)]))
A(inst("mov_velem.3", 0x0e0c3ffd, {"x0": 0x62d8ced391ba44f3}, q={31: V31_2}, claim=[cx(29, 0x0000000062baced3)]))

with open(__file__.rsplit("/", 1)[0] + "/repo_tests.ndjson", "w") as f:
    for e in out:
        f.write(json.dumps(e, separators=(",", ":")) + "\n")
print(len(out), "instances")
