#!/usr/bin/env python3
"""Regenerates the C20 instruction corpus (needs llvm-mc 14).  One JSON file per architecture:
instructions that between them name every general register of the architecture, plus two
probes (an immediate load, a memory load).  The committed *.json files are what the check
uses; this script documents how they were made.  Bytes are in memory order for the target, as
emitted by llvm-mc (an encoder independent of capstone/bad64)."""
import json
import os
import re
import subprocess
import sys

HERE = os.path.dirname(os.path.abspath(__file__))


def assemble_many(triple, extra, pre, texts):
    """One llvm-mc run for all texts (each text is one or more instructions, one per line);
    returns the hex string of each text."""
    p = subprocess.run(["llvm-mc", "-triple=" + triple, "-show-encoding"] + extra, input=pre + "\n".join(texts) + "\n",
                       text=True, stdout=subprocess.PIPE, stderr=subprocess.PIPE)
    if p.returncode != 0:
        sys.exit("llvm-mc failed for %s:\n%s" % (triple, p.stderr))
    encs = ["".join("%02x" % int(x, 16) for x in m.group(1).split(","))
            for m in re.finditer(r"encoding: \[([^\]]*)\]", p.stdout)]
    counts = [len(t.split("\n")) for t in texts]
    if sum(counts) != len(encs):
        sys.exit("llvm-mc: %d encodings for %d instructions (%s)" % (len(encs), sum(counts), triple))
    out, i = [], 0
    for c in counts:
        out.append("".join(encs[i:i + c]))
        i += c
    return out


def x86(regs, sp, bp, word):
    ins = []
    for i, r in enumerate(regs):
        o = regs[(i + 3) % len(regs)]
        ins += ["mov %s, 0x1234" % r, "add %s, %s" % (r, o), "mov [%s+4], %s" % (sp, r), "mov %s, [%s+8]" % (r, bp),
                "push %s" % r, "pop %s" % r, "xor %s, %s" % (r, r), "cmp %s, %s" % (r, o)]
    ins += ["ret", "leave", "nop", "mov ax, bx", "mov al, ah", "movzx %s, cl" % regs[0], "lea %s, [%s+%s*4+16]" % (regs[0], regs[1], regs[2]),
            "sub %s, 32" % sp, "add %s, 32" % sp, "inc %s" % regs[1], "neg %s" % regs[2], "shl %s, 3" % regs[3], "imul %s, %s" % (regs[0], regs[1])]
    return ins


def mips():
    names = ["$zero", "$at", "$v0", "$v1", "$a0", "$a1", "$a2", "$a3", "$t0", "$t1", "$t2", "$t3", "$t4", "$t5", "$t6", "$t7",
             "$s0", "$s1", "$s2", "$s3", "$s4", "$s5", "$s6", "$s7", "$t8", "$t9", "$k0", "$k1", "$gp", "$sp", "$fp", "$ra"]
    ins = []
    for i in range(32):
        d, s, t = "$%d" % i, "$%d" % ((i + 5) % 32), "$%d" % ((i + 11) % 32)
        ins += ["addu %s, %s, %s" % (d, s, t), "lw %s, 4($29)" % d, "sw %s, 8($29)" % d, "addiu %s, %s, -16" % (d, s),
                "sltu %s, %s, %s" % (d, s, t)]
    ins += ["mult $4, $5", "mflo $2", "mfhi $3", "lui $8, 0x1234", "ori $8, $8, 0x5678", "lb $9, 1($4)", "lhu $10, 2($5)",
            "sb $9, 3($4)", "sh $10, 6($5)", "sll $2, $3, 4", "sra $2, $3, 5", "nor $2, $3, $4", "move $30, $29"]
    # branches take their delay slot with them
    pairs = ["jr $31\nnop", "jal 0x400\nnop", "jalr $25\nnop", "beq $4, $5, 16\nnop", "bne $2, $0, 8\nnop"]
    return ins, pairs, names


def ppc():
    ins = []
    for i in range(32):
        d, a, b = i, (i + 5) % 32, (i + 11) % 32
        ins += ["add %d, %d, %d" % (d, a, b), "lwz %d, 4(1)" % d, "stw %d, 8(1)" % d, "addi %d, %d, -16" % (d, a if a else 1),
                "or %d, %d, %d" % (d, a, b)]
    ins += ["mflr 0", "mtlr 0", "mtctr 3", "blr", "bl 0x100", "cmpw 3, 4", "cmplwi 5, 10", "stwu 1, -32(1)", "lbz 9, 1(4)", "lhz 10, 2(5)",
            "stb 9, 3(4)", "sth 10, 6(5)", "slwi 3, 4, 2", "srawi 3, 4, 5", "mullw 3, 4, 5", "neg 3, 4", "li 3, 0x1234", "lis 4, 0x1234",
            "bctr", "b 0x40", "beq 0, 0x20", "mr 31, 1"]
    return ins


def aarch64():
    ins = []
    for i in range(31):
        d, n, m = i, (i + 5) % 31, (i + 11) % 31
        ins += ["add x%d, x%d, x%d" % (d, n, m), "ldr x%d, [sp, #8]" % d, "str x%d, [sp, #16]" % d, "add w%d, w%d, w%d" % (d, n, m),
                "sub x%d, x%d, #16" % (d, n), "orr x%d, x%d, x%d" % (d, n, m)]
    for i in range(32):
        ins += ["ldr q%d, [x0]" % i, "str q%d, [sp]" % i, "ldr d%d, [x1]" % i, "mov v%d.16b, v%d.16b" % (i, (i + 1) % 32)]
    ins += ["add sp, sp, #32", "sub sp, sp, #32", "mov x29, sp", "stp x29, x30, [sp, #-16]!", "ldp x29, x30, [sp], #16", "ret", "bl 0x100",
            "blr x16", "br x17", "b 0x40", "cbz x0, 0x20", "cmp x0, x1", "b.eq 0x10", "mov x0, #0x1234", "movk x0, #0x5678, lsl #16",
            "ldrb w9, [x4, #1]", "ldrh w10, [x5, #2]", "strb w9, [x4, #3]", "lsl x2, x3, #4", "mul x2, x3, x4", "nop", "adrp x0, 0x1000",
            "ldr w3, [x2]", "str w3, [x2, #4]", "csel x0, x1, x2, eq"]
    return ins


def main():
    targets = []
    r32 = ["eax", "ecx", "edx", "ebx", "esi", "edi", "ebp"]
    r64 = ["rax", "rcx", "rdx", "rbx", "rsi", "rdi", "rbp", "r8", "r9", "r10", "r11", "r12", "r13", "r14", "r15"]
    intel = ["-x86-asm-syntax=intel", "-output-asm-variant=1"]
    targets.append(dict(arch="x86", triple="i386", extra=intel, ins=x86(r32, "esp", "ebp", 32), pairs=[],
                        imm=dict(asm="mov ebx, 0x11223344", dst="ebx", w=32, imm=0x11223344),
                        load=dict(asm="mov eax, [ebx]", dst="eax", w=32, base="ebx", bw=32)))
    targets.append(dict(arch="amd64", triple="x86_64", extra=intel, ins=x86(r64, "rsp", "rbp", 64), pairs=[],
                        imm=dict(asm="movabs rbx, 0x1122334455667788", dst="rbx", w=64, imm=0x1122334455667788),
                        load=dict(asm="mov rax, [rbx]", dst="rax", w=64, base="rbx", bw=64)))
    mi, mp, _ = mips()
    for arch, triple in (("mips", "mips"), ("mipsel", "mipsel")):
        targets.append(dict(arch=arch, triple=triple, extra=["-mcpu=mips32r2"], ins=mi, pairs=mp,
                            imm=dict(asm="ori $8, $0, 0x1234", dst="$t0", w=32, imm=0x1234),
                            load=dict(asm="lw $8, 0($4)", dst="$t0", w=32, base="$a0", bw=32)))
    targets.append(dict(arch="ppc", triple="powerpc", extra=[], ins=ppc(), pairs=[],
                        imm=dict(asm="li 3, 0x1234", dst="r3", w=32, imm=0x1234),
                        load=dict(asm="lwz 3, 0(4)", dst="r3", w=32, base="r4", bw=32)))
    for arch, triple in (("aarch64", "aarch64"), ("aarch64eb", "aarch64_be")):
        targets.append(dict(arch=arch, triple=triple, extra=["-mattr=+neon"], ins=aarch64(), pairs=[],
                            imm=dict(asm="mov x3, #0x1234", dst="x3", w=64, imm=0x1234),
                            load=dict(asm="ldr x0, [x1]", dst="x0", w=64, base="x1", bw=64)))
    for t in targets:
        pre = ".set noreorder\n.set noat\n" if t["triple"].startswith("mips") else ""
        texts = t["ins"] + t["pairs"] + [t["imm"]["asm"], t["load"]["asm"]]
        hexes = assemble_many(t["triple"], t["extra"], pre, texts)
        items = [dict(asm=a.replace("\n", "; "), hex=h) for a, h in zip(t["ins"] + t["pairs"], hexes)]
        imm = dict(t["imm"], hex=hexes[-2])
        imm["imm"] = [(imm["imm"] >> (8 * i)) & 255 for i in range(imm["w"] // 8)]
        load = dict(t["load"], hex=hexes[-1])
        with open(os.path.join(HERE, t["arch"] + ".json"), "w") as f:
            json.dump(dict(arch=t["arch"], triple=t["triple"], insns=items, imm_probe=imm, load_probe=load), f, indent=0)
        print(t["arch"], len(items), "instructions")


if __name__ == "__main__":
    main()
