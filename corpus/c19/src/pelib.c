/* C19 corpus: a DLL with exported functions and data (no imports: nothing to resolve). */
__declspec(dllexport) int lib_value = 11;
__declspec(dllexport) int lib_zero[3];
__declspec(dllexport) int lib_big[200]; /* makes VirtualSize of .data exceed its raw size: zero fill */
__attribute__((noinline)) static int lib_local(int x) { return x ^ lib_value; }
__declspec(dllexport) int lib_weak(int x) { return x - 1; }
__declspec(dllexport) int lib_entry(int x) { lib_zero[0] = lib_local(x) + 3; return lib_weak(lib_zero[0]); }
