/* C19 corpus: a freestanding program with code, initialised data, a bss tail,
   a weak function, a local function and an object symbol. */
int counter = 7;
char table[5] = {1, 2, 3, 4, 5};
int zeros[6];
__attribute__((noinline)) static int local_helper(int x) { return x + counter; }
__attribute__((weak)) int weak_hook(int x) { return x * 2; }
int compute(int x) { zeros[1] = local_helper(x); return weak_hook(zeros[1]) + table[2]; }
void _start(void) { compute(3); for (;;) { } }
