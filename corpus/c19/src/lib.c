/* C19 corpus: a shared object with exported / weak / undefined symbols and PLT calls. */
extern int ext_call(int);
extern int ext_data;
int lib_value = 11;
int lib_zero[3];
__attribute__((weak)) int lib_weak(int x) { return x - 1; }
__attribute__((noinline)) static int lib_local(int x) { return x ^ lib_value; }
int lib_entry(int x) { lib_zero[0] = ext_call(lib_local(x)) + ext_data; return lib_weak(lib_zero[0]); }
