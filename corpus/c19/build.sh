#!/bin/sh
# Rebuilds the committed C19 corpus (needs clang 14 + ld.lld).  The committed *.elf files are
# what the check uses; this script documents how they were made.
set -e
cd "$(dirname "$0")"
for t in i386:i386-linux-gnu x86_64:x86_64-linux-gnu mips:mips-linux-gnu mipsel:mipsel-linux-gnu \
         ppc:powerpc-linux-gnu aarch64:aarch64-linux-gnu aarch64_be:aarch64_be-linux-gnu; do
  n=${t%%:*}; triple=${t#*:}
  flags="--target=$triple -O1 -ffreestanding -fno-stack-protector -fno-asynchronous-unwind-tables -nostdlib -fuse-ld=lld -Wl,-z,max-page-size=4096 -Wl,--build-id=none -Wl,--hash-style=sysv"
  clang $flags -static -fno-pic -Wl,-e,_start src/prog.c -o prog-$n.elf
  clang $flags -shared -fPIC src/lib.c -o lib-$n.elf
done
ls -la *.elf

# PE files for the PE loader sessions (lld-link); prog-r4000.exe is prog-i386.exe with the COFF
# machine field patched to IMAGE_FILE_MACHINE_R4000 (0x166, little-endian MIPS): only the
# machine -> architecture mapping is exercised with it.
for t in i386:i686-pc-windows-msvc x86_64:x86_64-pc-windows-msvc; do
  n=${t%%:*}; triple=${t#*:}
  flags="--target=$triple -O1 -ffreestanding -fno-stack-protector -fno-asynchronous-unwind-tables -nostdlib -fuse-ld=lld-link"
  clang $flags src/prog.c -o prog-$n.exe -Wl,/entry:_start -Wl,/subsystem:console -Wl,/nodefaultlib -Wl,/debug:none -Wl,/Brepro -Xlinker /export:compute -Xlinker /export:counter,DATA
  clang $flags -shared src/pelib.c -o lib-$n.dll -Wl,/noentry -Wl,/nodefaultlib -Wl,/debug:none -Wl,/Brepro
done
python3 - <<'PY'
b = bytearray(open("prog-i386.exe", "rb").read())
pe = int.from_bytes(b[0x3c:0x40], "little")
assert b[pe:pe + 4] == b"PE\0\0" and b[pe + 4:pe + 6] == b"\x4c\x01"
b[pe + 4:pe + 6] = b"\x66\x01"
open("prog-r4000.exe", "wb").write(b)
PY
rm -f *.lib
ls -la *.exe *.dll
