#!/bin/sh
# Rebuilds the committed C19 corpus (needs clang 14 + ld.lld).  The committed *.elf files are
# what the check uses; this script documents how they were made.
set -e
cd "$(dirname "$0")"
for t in i386:i386-linux-gnu x86_64:x86_64-linux-gnu mips:mips-linux-gnu mipsel:mipsel-linux-gnu \
         ppc:powerpc-linux-gnu aarch64:aarch64-linux-gnu aarch64_be:aarch64_be-linux-gnu; do
  n=${t%%:*}; triple=${t#*:}
  flags="--target=$triple -O1 -ffreestanding -fno-stack-protector -fno-asynchronous-unwind-tables -nostdlib -fuse-ld=lld -Wl,-z,max-page-size=4096 -Wl,--build-id=none -Wl,--hash-style=sysv"
  clang $flags -static -fno-pic -Wl,-e,_start src/prog.c -o prog-$n.elf
  clang $flags -shared -fPIC src/lib.c -o lib-$n.elf
done
ls -la *.elf
