# PowerPC 32-bit templates
add 3, 4, 5
add. 3, 4, 5
addi 3, 4, -1
addi 1, 1, -32
addis 3, 4, 0x7fff
addze 3, 4
b 16
b @-8
ba 0x100
bl 32
bla 0x100
beq 0, 16
beq 1, 16
bne 0, 16
blt 0, 16
bgt 0, 16
ble 0, -16
bge 7, 16
bdnz 16
bdnzl 16
bdz 8
bc 12, 2, 16
bc 4, 2, 16
bc 20, 0, 16
bclr 20, 0
bclr 12, 2
blr
beqlr 0
bnelr 0
bctr
bctrl
beqctr 0
cmpwi 0, 3, 0
cmpwi 7, 3, -1
cmpw 0, 3, 4
cmplwi 0, 3, 65535
cmplwi 3, 3, 1
cmplw 0, 3, 4
lbz 3, 0(4)
lbz 3, -1(1)
lwz 3, 0(4)
lwz 0, 36(1)
lwzu 3, 4(4)
li 3, 0
li 3, -1
lis 3, 0x1234
lis 3, -1
mtctr 3
mflr 0
mr 3, 4
mr 31, 1
mtlr 0
nop
rlwinm 3, 4, 2, 0, 29
rlwinm 3, 4, 0, 24, 31
rlwinm 3, 4, 31, 31, 0
rlwinm. 3, 4, 2, 0, 29
slwi 3, 4, 2
slwi 3, 4, 31
srawi 3, 4, 2
srawi 3, 4, 0
srawi. 3, 4, 31
stmw 29, -12(1)
stmw 31, 0(1)
stw 3, 0(4)
stw 0, 4(1)
stwu 1, -32(1)
subf 3, 4, 5
subf. 3, 4, 5
# not handled by the lifter
mullw 3, 4, 5
divw 3, 4, 5
and 3, 4, 5
or 3, 4, 5
ori 3, 4, 1
xor 3, 4, 5
neg 3, 4
lhz 3, 0(4)
sth 3, 0(4)
stb 3, 0(4)
lmw 29, -12(1)
lwzx 3, 4, 5
stwx 3, 4, 5
srwi 3, 4, 2
extsb 3, 4
mfcr 3
mtcrf 255, 3
sc
fadd 1, 2, 3
lfd 1, 0(3)
stfd 1, 0(3)
crxor 6, 6, 6
isync
sync
mfctr 3
mfspr 3, 268
addic 3, 4, 1
addic. 3, 4, 1
subfic 3, 4, 1
cntlzw 3, 4
rlwimi 3, 4, 2, 0, 29
twi 31, 0, 0
trap
