# 64-bit only templates
add rax, rbx
add rax, qword ptr [rbx+rcx*8+16]
add r8, r9
add r8d, r9d
add r8w, r9w
add r8b, r9b
add sil, dil
add spl, bpl
add qword ptr [rip+0x100], 1
adc rax, rbx
and rsp, -16
bsf rax, rbx
bsr rax, rbx
bswap rax
bswap r15
bt rax, rbx
bt rax, 63
btc qword ptr [rax], 1
call @+0x100
call rax
call qword ptr [rip+0x10]
cdqe
cqo
cmova rax, rbx
cmovne r8, qword ptr [r9]
cmp rax, rbx
cmp qword ptr [rax], 0
cmpxchg qword ptr [rax], rbx
dec rax
div rbx
div r8
idiv rbx
idiv qword ptr [rax]
imul rbx
imul rax, rbx
imul rax, qword ptr [rbx], 100
inc r15
jrcxz @+0x20
jecxz @+0x20
jmp rax
jmp qword ptr [rax]
jmp qword ptr [rip+0x1000]
jmp qword ptr [rax*8+0x1000]
lea rax, [rip+0x100]
lea rax, [rbx+rcx*8-8]
lea eax, [rbx+rcx]
leave
lodsb
lodsd
lodsq
loop @+0x10
mov rax, rbx
mov r8, r9
mov r8b, al
mov rax, 0x1122334455667788
movabs rax, 0x1122334455667788
movabs al, byte ptr [0x1122334455667788]
movabs qword ptr [0x1122334455667788], rax
mov rax, qword ptr [rbx]
mov qword ptr [rbx], rax
mov qword ptr [rax], -1
mov rax, qword ptr fs:[0x28]
mov eax, dword ptr [rip]
mov rax, cr3
movaps xmm8, xmm9
movaps xmm0, xmmword ptr [rax]
movdqa xmmword ptr [rsp], xmm15
movdqu xmm0, xmmword ptr [rax+rbx]
movnti qword ptr [rax], rbx
movq xmm0, rax
movq rax, xmm0
movq mm0, rax
movq xmm0, qword ptr [rax]
movd xmm0, eax
movd eax, xmm1
movhpd xmm0, qword ptr [rax]
movlpd qword ptr [rax], xmm0
movsb
movsq
rep movsq
rep movsb
movsx rax, bl
movsx rax, bx
movsxd rax, ebx
movsxd rax, dword ptr [rbx]
movzx rax, bl
movzx eax, r8b
movzx r8, word ptr [rax]
mul rbx
mul qword ptr [rax]
neg rax
not rax
or rax, rbx
paddq xmm8, xmm9
pcmpeqb xmm0, xmmword ptr [rax]
pcmpeqd xmm0, xmm1
pmovmskb eax, xmm0
pmovmskb r8d, xmm9
pminub xmm0, xmm1
pop rax
pop r15
pop qword ptr [rax]
pop ax
por xmm0, xmm1
pshufd xmm0, xmm1, 0xff
pslldq xmm0, 8
psrldq xmm0, 8
psubb xmm0, xmm1
psubq xmm0, xmm1
punpcklbw xmm0, xmm1
punpcklwd xmm0, xmm1
push rax
push r15
push 1
push qword ptr [rax]
push ax
push fs
pxor xmm0, xmm1
ret
ret 16
rol rax, 1
rol rax, cl
ror rax, 63
sar rax, cl
sar rax, 63
sbb rax, rbx
scasb
scasw
repne scasb
setne r8b
sete sil
shl rax, 1
shl rax, cl
shl rax, 63
shr rax, cl
shld rax, rbx, 4
shld rax, rbx, cl
shrd rax, rbx, 63
stosb
stosq
rep stosq
rep stosb
sub rsp, 0x100
syscall
sysenter
test rax, rax
test r8b, r8b
xadd qword ptr [rax], rbx
xchg rax, rbx
xchg r8, rax
xchg eax, eax
xor rax, rax
xor r8d, r8d
nop word ptr [rax+rax]
endbr64
# not handled by the lifter
cpuid
rdtsc
pushfq
popfq
swapgs
sysret
iretq
addsd xmm0, xmm1
cvtsi2sd xmm0, rax
vaddpd ymm0, ymm1, ymm2
vzeroupper
popcnt rax, rbx
tzcnt rax, rbx
bextr rax, rbx, rcx
mulx rax, rbx, rcx
adcx rax, rbx
cmpxchg16b xmmword ptr [rax]
scasq
cmpsq
lodsw
xlatb
rdfsbase rax
vpbroadcastb zmm0, xmm1
kmovw k1, eax
