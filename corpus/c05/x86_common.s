# x86 templates valid in both 32- and 64-bit mode (AT&T-free: intel syntax)
adc eax, ebx
adc al, 1
adc dword ptr [eax], 1
add eax, ebx
add al, bl
add ax, bx
add ah, ch
add eax, dword ptr [ebx+ecx*4+8]
add dword ptr [eax], ebx
add byte ptr [eax], 1
add esp, 16
and eax, 0xff
and byte ptr [ebx], al
bsf eax, ebx
bsf ax, bx
bsr eax, dword ptr [ebx]
bswap eax
bt eax, ebx
bt eax, 5
bt dword ptr [eax], ebx
bt word ptr [eax], 3
btc eax, 1
btr eax, ebx
bts dword ptr [eax], 31
call @+0x100
call eax
call dword ptr [eax]
cbw
cdq
clc
cld
cli
cmc
cmova eax, ebx
cmovae eax, ebx
cmovb eax, ebx
cmovbe eax, ebx
cmove eax, ebx
cmovg eax, ebx
cmovge eax, ebx
cmovl eax, ebx
cmovle ax, bx
cmovne eax, dword ptr [ebx]
cmovno eax, ebx
cmovnp eax, ebx
cmovns eax, ebx
cmovo eax, ebx
cmovp eax, ebx
cmovs eax, ebx
cmp eax, ebx
cmp al, 0
cmp byte ptr [eax], 0
cmp word ptr [eax], bx
cmpsb
repe cmpsb
repne cmpsb
cmpxchg dword ptr [eax], ebx
cmpxchg al, bl
lock cmpxchg dword ptr [eax], ebx
cwd
cwde
dec eax
dec byte ptr [eax]
div ebx
div bl
div word ptr [eax]
hlt
idiv ebx
idiv bl
idiv cx
imul ebx
imul bl
imul eax, ebx
imul eax, ebx, 12
imul ax, word ptr [eax], 3
inc eax
inc word ptr [eax]
int 0x80
int3
ja @+0x20
jae @+0x20
jb @+0x20
jbe @+0x20
jecxz @+0x20
je @+0x20
jg @+0x20
jge @+0x20
jl @+0x20
jle @+0x20
jne @+0x20
jno @+0x20
jnp @+0x20
jns @+0x20
jo @+0x20
jp @+0x20
js @+0x20
je @+0x12345
jmp @+0x20
jmp @+0x12345
jmp eax
jmp dword ptr [eax]
jmp dword ptr [eax*4+0x1000]
lea eax, [ebx+ecx*2+4]
lea ax, [ebx]
lea eax, [esp]
leave
lodsb
lodsd
rep lodsb
loop @+0x10
loope @+0x10
loopne @+0x10
mov eax, ebx
mov al, bl
mov ah, bl
mov ax, bx
mov eax, 0x12345678
mov eax, dword ptr [ebx]
mov dword ptr [ebx], eax
mov byte ptr [eax+ebx], 7
mov word ptr [eax], 7
mov eax, dword ptr fs:[0]
mov eax, dword ptr gs:[0x14]
mov ax, ds
mov ds, ax
mov eax, cr0
mov eax, dword ptr [0x1000]
movaps xmm0, xmm1
movaps xmm0, xmmword ptr [eax]
movaps xmmword ptr [eax], xmm0
movapd xmm0, xmm1
movdqa xmm0, xmmword ptr [eax]
movdqu xmmword ptr [eax], xmm0
movups xmm0, xmmword ptr [eax]
movnti dword ptr [eax], ebx
movhpd xmm0, qword ptr [eax]
movhpd qword ptr [eax], xmm0
movlpd xmm0, qword ptr [eax]
movlpd qword ptr [eax], xmm0
movq xmm0, xmm1
movq xmm0, qword ptr [eax]
movq qword ptr [eax], xmm0
movq mm0, mm1
movq mm0, qword ptr [eax]
movd xmm0, eax
movd eax, xmm0
movd mm0, eax
movd xmm0, dword ptr [eax]
movsb
movsw
movsd
rep movsb
rep movsd
repne movsb
movsd xmm0, xmm1
movsd xmm0, qword ptr [eax]
movsx eax, bl
movsx eax, bx
movsx ax, bl
movsx eax, byte ptr [ebx]
movzx eax, bl
movzx eax, bx
movzx ax, byte ptr [ebx]
movzx eax, word ptr [ebx]
mul ebx
mul bl
mul word ptr [eax]
neg eax
neg byte ptr [eax]
nop
nop dword ptr [eax]
not eax
not word ptr [eax]
or eax, ebx
or byte ptr [eax], 0x80
paddq xmm0, xmm1
paddq mm0, mm1
paddq xmm0, xmmword ptr [eax]
pause
pcmpeqb xmm0, xmm1
pcmpeqb mm0, mm1
pcmpeqb xmm0, xmmword ptr [eax]
pcmpeqd xmm0, xmm1
pcmpeqd mm0, mm1
pmovmskb eax, xmm0
pmovmskb eax, mm0
pminub xmm0, xmm1
pminub mm0, mm1
pop eax
pop ax
pop dword ptr [eax]
pop ds
por xmm0, xmm1
por mm0, mm1
prefetcht0 byte ptr [eax]
prefetcht1 byte ptr [eax]
prefetcht2 byte ptr [eax]
prefetchnta byte ptr [eax]
pshufd xmm0, xmm1, 0x1b
pshufd xmm0, xmmword ptr [eax], 0
pslldq xmm0, 4
pslldq xmm0, 255
psrldq xmm0, 4
psrldq xmm0, 16
psubb xmm0, xmm1
psubb mm0, mm1
psubq xmm0, xmm1
psubq mm0, mm1
punpcklbw xmm0, xmm1
punpcklbw mm0, mm1
punpcklwd xmm0, xmm1
punpcklwd mm0, mm1
push eax
push ax
push 1
push 0x12345678
push dword ptr [eax]
push cs
pxor xmm0, xmm1
pxor mm0, mm1
ret
ret 8
retf
rol eax, 1
rol eax, cl
rol byte ptr [eax], 3
ror eax, 1
ror ax, cl
ror dword ptr [eax], 31
sahf
sar eax, 1
sar eax, cl
sar byte ptr [eax], 7
sbb eax, ebx
sbb byte ptr [eax], 1
scasb
scasw
repne scasb
repe scasb
rep scasw
seta al
setae al
setb al
setbe al
sete byte ptr [eax]
setg al
setge al
setl al
setle al
setne al
setno al
setnp al
setns al
seto al
setp al
sets ah
shl eax, 1
shl eax, cl
shl byte ptr [eax], 4
shr eax, 1
shr ax, cl
shr dword ptr [eax], 31
shld eax, ebx, 4
shld eax, ebx, cl
shld word ptr [eax], bx, 3
shrd eax, ebx, 4
shrd dword ptr [eax], ebx, cl
stc
std
sti
stosb
stosw
stosd
rep stosb
rep stosd
repne stosd
sub eax, ebx
sub esp, 0x100
sub byte ptr [eax], al
sysenter
test eax, eax
test al, 1
test byte ptr [eax], 0x80
wait
ud2
xadd dword ptr [eax], ebx
xadd al, bl
lock xadd dword ptr [eax], ebx
xchg eax, ebx
xchg al, ah
xchg dword ptr [eax], ebx
xchg ax, ax
xor eax, eax
xor byte ptr [eax], 0xff
# not handled by the lifter
cpuid
rdtsc
xlatb
lahf
pushfd
popfd
pushal
popal
enter 8, 0
bound eax, qword ptr [ebx]
fld dword ptr [eax]
fstp qword ptr [eax]
faddp st(1)
addps xmm0, xmm1
addsd xmm0, xmm1
cvtsi2sd xmm0, eax
pshufb xmm0, xmm1
pand xmm0, xmm1
paddd xmm0, xmm1
movss xmm0, xmm1
lddqu xmm0, xmmword ptr [eax]
in al, dx
out dx, al
insb
outsb
les eax, ptr [ebx]
lds eax, ptr [ebx]
aaa
daa
into
iretd
lgdt [eax]
invlpg byte ptr [eax]
rdmsr
wrmsr
bsf eax, eax
popcnt eax, ebx
lzcnt eax, ebx
andn eax, ebx, ecx
vaddps ymm0, ymm1, ymm2
vmovdqa ymm0, ymmword ptr [eax]
vpxor xmm0, xmm1, xmm2
crc32 eax, bl
rdrand eax
xgetbv
cmpxchg8b qword ptr [eax]
scasd
cmpsd
cmpsw
lodsw
