#!/usr/bin/env python3
"""Regenerate the committed C05 corpus (*.hex) from the assembly templates (*.s) with llvm-mc.

Each output line:  <hex bytes of one instruction>  # <assembly text>
The hex files are what the recorder reads; llvm-mc is only needed to regenerate them
(`python3 corpus/c05/gen.py`, `--check` verifies the committed files are up to date).
llvm-mc is an encoder independent of capstone/bad64, the decoders falcon uses.
"""
import os, re, subprocess, sys

HERE = os.path.dirname(os.path.abspath(__file__))
TARGETS = {   # output name: (triple, mattr, sources, intel syntax)
    "mips":       ("mips",       "+mips32r2", ["mips.s"], False),
    "mipsel":     ("mipsel",     "+mips32r2", ["mips.s"], False),
    "ppc":        ("powerpc",    "",          ["ppc.s"], False),
    "aarch64":    ("aarch64",    "+v8.5a,+sve,+lse,+rcpc-immo,+lor,+pauth,+bti", ["aarch64.s"], False),
    "aarch64eb":  ("aarch64_be", "+v8.5a,+sve,+lse,+rcpc-immo,+lor,+pauth,+bti", ["aarch64.s"], False),
    "x86":        ("i386",       "+avx2,+bmi,+bmi2,+adx,+sse4.2,+popcnt,+lzcnt,+rdrnd,+xsave", ["x86_common.s"], True),
    "amd64":      ("x86_64",     "+avx2,+avx512f,+avx512bw,+bmi,+bmi2,+adx,+sse4.2,+popcnt,+lzcnt,+rdrnd,+fsgsbase,+xsave,+cx16",
                   ["x86_common64.s", "x86_64.s"], True),
}
ENC = re.compile(r"encoding: \[([^\]]*)\]")


OBJ = os.path.join(HERE, ".gen_tmp.o")
REL = re.compile(r"@([+-])(0x[0-9a-fA-F]+|\d+)")
DUMP = re.compile(r"^\s*[0-9a-f]+:\s+((?:[0-9a-f]{2} )+)")


def assemble_rel(triple, mattr, intel, text):
    """templates with a pc-relative target written @+N / @-N: assemble to an object so that the
    fixup is resolved, and read the bytes of the first instruction back with llvm-objdump"""
    m = REL.search(text)
    body = REL.sub(".Ltgt", text)
    src = (".intel_syntax noprefix\n" if intel else "") + ".Lstart:\n" + body + "\n.set .Ltgt, .Lstart%s%s\n" % (m.group(1), m.group(2))
    cmd = ["llvm-mc", "-triple=" + triple, "-filetype=obj", "-o", OBJ]
    if mattr:
        cmd.append("-mattr=" + mattr)
    p = subprocess.run(cmd, input=src, stdout=subprocess.PIPE, stderr=subprocess.PIPE, text=True)
    if p.returncode != 0:
        return None
    d = subprocess.run(["llvm-objdump", "-d", OBJ] + (["--mattr=" + mattr] if mattr else []),
                       stdout=subprocess.PIPE, stderr=subprocess.PIPE, text=True)
    os.remove(OBJ)
    rows = [DUMP.match(l) for l in d.stdout.splitlines()]
    rows = [r for r in rows if r]
    if len(rows) != 1:
        return None
    return [int(x, 16) for x in rows[0].group(1).split()]


def assemble_line(triple, mattr, intel, text):
    if REL.search(text):
        return assemble_rel(triple, mattr, intel, text)
    src = (".intel_syntax noprefix\n" if intel else "") + (".set noreorder\n" if triple.startswith("mips") else "") + text + "\n"
    cmd = ["llvm-mc", "-triple=" + triple, "-show-encoding"]
    if mattr:
        cmd.append("-mattr=" + mattr)
    p = subprocess.run(cmd, input=src, stdout=subprocess.PIPE, stderr=subprocess.PIPE, text=True)
    if p.returncode != 0 or "error:" in p.stderr:
        return None
    out = []
    for m in ENC.finditer(p.stdout):
        bs = []
        for tok in m.group(1).split(","):
            tok = tok.strip()
            if tok.startswith("0x"):
                bs.append(int(tok, 16) & 0xff)
            elif tok.startswith("0b"):
                bs.append(int(tok[2:], 2) & 0xff)
            elif tok == "A" or "A" in tok:      # relocation placeholder byte
                bs.append(0)
            else:
                return None
        out.append(bs)
    if len(out) != 1:          # macro expanded to several instructions, or nothing: skip
        return None
    return out[0]


def lines_of(name):
    if name == "x86_common64.s":   # the common templates re-read with 64-bit registers where a 32-bit address is used
        name = "x86_common.s"
        conv = True
    else:
        conv = False
    out = []
    with open(os.path.join(HERE, name)) as f:
        for l in f:
            l = l.strip()
            if not l or l.startswith("#"):
                continue
            if conv:
                # memory operands: use 64-bit base/index registers in 64-bit mode
                def fix(m):
                    inner = m.group(1)
                    inner = re.sub(r"\be(ax|bx|cx|dx|si|di|sp|bp)\b", r"r\1", inner)
                    return "[" + inner + "]"
                l = re.sub(r"\[([^\]]*)\]", fix, l)
            out.append(l)
    return out


def generate(name):
    triple, mattr, srcs, intel = TARGETS[name]
    res, skipped = [], []
    for s in srcs:
        for text in lines_of(s):
            b = assemble_line(triple, mattr, intel, text)
            if b is None:
                skipped.append(text)
                continue
            res.append("%s  # %s" % ("".join("%02x" % x for x in b), text))
    return res, skipped


def main():
    check = "--check" in sys.argv
    bad = 0
    for name in TARGETS:
        res, skipped = generate(name)
        body = "\n".join(res) + "\n"
        path = os.path.join(HERE, name + ".hex")
        if check:
            old = open(path).read() if os.path.exists(path) else ""
            if old != body:
                print("corpus out of date:", path)
                bad = 1
        else:
            with open(path, "w") as f:
                f.write(body)
            print("%-10s %4d instructions, %d templates not accepted by llvm-mc for this target%s" % (
                name, len(res), len(skipped), (": " + "; ".join(skipped[:8])) if skipped else ""))
    sys.exit(bad)


if __name__ == "__main__":
    main()
