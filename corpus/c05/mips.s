# MIPS32 templates (assembled for mips and mipsel); one instruction per line.
# branches are followed by a delay slot when lifted: the harness appends a nop / another template.
add $t0, $t1, $t2
add $zero, $a0, $a1
addi $t0, $t1, -4
addi $sp, $sp, 32767
addiu $sp, $sp, -32
addiu $v0, $zero, 1
addu $v0, $a0, $a1
addu $ra, $ra, $ra
and $t0, $t1, $t2
andi $t0, $t1, 0xffff
b 16
b -8
bal 32
beq $t0, $t1, 16
beq $zero, $zero, -4
beqz $a0, 24
bgez $a0, 12
bgezal $a0, 12
bgtz $a0, 12
blez $a0, 12
bltz $a0, -12
bltzal $a0, 12
bne $t0, $t1, 64
bnez $v0, 8
break
break 7
clo $t0, $t1
clz $t0, $t1
div $zero, $t0, $t1
divu $zero, $t0, $t1
j 0x1000
jal 0x2000
jalr $t9
jalr $a0, $t9
jr $ra
jr $t9
lb $t0, 4($sp)
lbu $t0, -4($sp)
lh $t0, 2($a0)
lhu $t0, 0($a0)
ll $t0, 0($a0)
lui $t0, 0x1234
lui $gp, 0xffff
lw $t0, 0($sp)
lw $ra, 28($sp)
lw $zero, -32768($gp)
lwl $t0, 3($a0)
lwr $t0, 0($a0)
madd $t0, $t1
maddu $t0, $t1
mfhi $t0
mflo $t0
move $t0, $t1
move $fp, $sp
movn $t0, $t1, $t2
movz $t0, $t1, $t2
msub $t0, $t1
msubu $t0, $t1
mthi $t0
mtlo $t0
mul $t0, $t1, $t2
mult $t0, $t1
multu $t0, $t1
negu $t0, $t1
nop
nor $t0, $t1, $t2
or $t0, $t1, $t2
ori $t0, $t1, 0x8000
pref 0, 0($a0)
rdhwr $v1, $29
sb $t0, 0($a0)
sc $t0, 0($a0)
sh $t0, 2($a0)
sll $t0, $t1, 4
sll $t0, $t1, 31
sllv $t0, $t1, $t2
slt $t0, $t1, $t2
slti $t0, $t1, -1
sltiu $t0, $t1, 1
sltu $t0, $t1, $t2
sra $t0, $t1, 3
srav $t0, $t1, $t2
srl $t0, $t1, 3
srlv $t0, $t1, $t2
sub $t0, $t1, $t2
subu $t0, $t1, $t2
sw $t0, 0($sp)
sw $ra, 28($sp)
swl $t0, 3($a0)
swr $t0, 0($a0)
sync
syscall
teq $t0, $t1
teq $zero, $zero, 7
xor $t0, $t1, $t2
xori $t0, $t1, 0xff
# not handled by the lifter (unsupported-instruction policy)
add.s $f0, $f1, $f2
lwc1 $f0, 0($a0)
swc1 $f0, 0($a0)
mfc0 $t0, $12, 0
mtc0 $t0, $12, 0
tlbwi
eret
wait
seb $t0, $t1
seh $t0, $t1
wsbh $t0, $t1
ext $t0, $t1, 3, 5
ins $t0, $t1, 3, 5
rotr $t0, $t1, 4
tge $t0, $t1
tne $t0, $t1
bc1t 8
movf $t0, $t1, $fcc0
cache 0, 0($a0)
sdc1 $f2, 8($sp)
ldc1 $f2, 8($sp)
mfc1 $t0, $f0
sllv $zero, $zero, $zero
ssnop
ehb
