# AArch64 templates (assembled for aarch64 and aarch64_be)
add x0, x1, x2
add w0, w1, w2
add x0, x1, #16
add sp, sp, #32
add x0, sp, #0
add x0, x1, x2, lsl #3
add x0, x1, w2, uxtw
add x0, x1, w2, sxtw #2
add w0, w1, w2, uxtb
add x0, x1, #1, lsl #12
adds x0, x1, x2
adds w0, w1, #1
adds x0, x1, x2, asr #63
b 16
b -8
b.eq 16
b.ne 16
b.cs 16
b.cc 16
b.mi 16
b.pl 16
b.vs 16
b.vc 16
b.hi 16
b.ls 16
b.ge 16
b.lt 16
b.gt 16
b.le 16
b.al 16
b.nv 16
br x16
bl 32
blr x8
cbnz x0, 16
cbnz w0, -16
cbz x0, 16
cbz w0, 16
tbnz x0, #63, 16
tbnz w0, #0, 16
tbz x0, #33, 16
tbz w0, #31, -16
ret
ret x1
ldar x0, [x1]
ldar w0, [x1]
ldarb w0, [x1]
ldarh w0, [x1]
ldlar x0, [x1]
ldlarb w0, [x1]
ldlarh w0, [x1]
ldp x29, x30, [sp], #16
ldp x0, x1, [sp, #16]
ldp w0, w1, [x2, #-8]!
ldp q0, q1, [x0]
ldp d0, d1, [x0]
ldp s0, s1, [x0]
ldnp x0, x1, [x2]
ldpsw x0, x1, [x2]
ldpsw x0, x1, [x2], #8
ldr x0, [x1]
ldr w0, [x1, #4]
ldr x0, [x1, x2]
ldr x0, [x1, x2, lsl #3]
ldr x0, [x1, w2, sxtw]
ldr x0, [x1, w2, uxtw #3]
ldr x0, [x1], #8
ldr x0, [x1, #8]!
ldr x0, 16
ldr w0, 16
ldr q0, [x1]
ldr d0, [x1]
ldr s0, [x1]
ldr h0, [x1]
ldr b0, [x1]
ldr q0, 16
ldrb w0, [x1]
ldrb w0, [x1, x2]
ldrb w0, [x1, #1]!
ldrh w0, [x1]
ldrh w0, [x1, x2, lsl #1]
ldrsw x0, [x1]
ldrsw x0, 16
ldrsw x0, [x1, x2]
ldrsb w0, [x1]
ldrsb x0, [x1]
ldrsh w0, [x1]
ldrsh x0, [x1], #2
ldur x0, [x1, #-8]
ldur w0, [x1, #-4]
ldur q0, [x1, #-16]
ldurb w0, [x1, #-1]
ldurh w0, [x1, #-2]
ldursw x0, [x1, #-4]
ldursb w0, [x1, #-1]
ldursb x0, [x1, #-1]
ldursh w0, [x1, #-2]
ldursh x0, [x1, #-2]
mov x0, x1
mov w0, w1
mov x0, sp
mov sp, x0
mov x0, #0
mov x0, #-1
mov w0, #65536
mov x0, #0x1234000000000000
mov x0, #0xffff0000ffff0000
mov w0, #0xff00ff00
mov x0, xzr
mov v0.16b, v1.16b
mov w0, v1.s[1]
mov x0, v1.d[1]
mov v0.s[1], w1
mov v0.b[0], v1.b[1]
mov z0.d, z1.d
nop
stp x29, x30, [sp, #-16]!
stp x0, x1, [sp, #16]
stp w0, w1, [x2], #8
stp q0, q1, [x0]
stp xzr, xzr, [x0]
stnp x0, x1, [x2]
str x0, [x1]
str w0, [x1, #4]
str x0, [x1, x2]
str x0, [x1, x2, lsl #3]
str x0, [x1], #8
str x0, [x1, #8]!
str xzr, [x1]
str wzr, [x1]
str q0, [x1]
str d0, [x1]
str b0, [x1]
strb w0, [x1]
strb wzr, [x1, x2]
strh w0, [x1]
strh w0, [x1, #2]!
stur x0, [x1, #-8]
stur w0, [x1, #-4]
stur q0, [x1, #-16]
sturb w0, [x1, #-1]
sturh w0, [x1, #-2]
stllr x0, [x1]
stllr w0, [x1]
stllrb w0, [x1]
stllrh w0, [x1]
stlr x0, [x1]
stlr w0, [x1]
stlrb w0, [x1]
stlrh w0, [x1]
stlur x0, [x1, #-8]
stlur w0, [x1, #4]
stlurb w0, [x1, #-1]
stlurh w0, [x1, #2]
sub x0, x1, x2
sub w0, w1, #1
sub sp, sp, #48
sub x0, x1, x2, lsr #4
sub x0, x1, w2, sxth
subs x0, x1, x2
subs w0, w1, w2, lsl #31
subs xzr, x1, x2
cmp x0, x1
cmp w0, #0
cmn x0, #1
neg x0, x1
negs w0, w1
prfm pldl1keep, [x0]
prfw pldl1keep, p0, [x0]
# not handled by the lifter
mul x0, x1, x2
madd x0, x1, x2, x3
udiv x0, x1, x2
and x0, x1, x2
orr x0, x1, x2
eor x0, x1, x2
lsl x0, x1, #3
lsr x0, x1, x2
adrp x0, 0x1000
adr x0, 16
movk x0, #1, lsl #16
csel x0, x1, x2, eq
cset w0, ne
ccmp x0, x1, #0, eq
svc #0
brk #1
udf #0
hlt #0
eret
mrs x0, tpidr_el0
msr tpidr_el0, x0
dmb ish
isb
fadd d0, d1, d2
fmov d0, x0
ld1 {v0.16b}, [x0]
st1 {v0.16b}, [x0]
ldxr x0, [x1]
stxr w2, x0, [x1]
ldaxr x0, [x1]
casal x0, x1, [x2]
ldadd x0, x1, [x2]
swp x0, x1, [x2]
sxtw x0, w1
uxtb w0, w1
ubfx x0, x1, #3, #5
extr x0, x1, x2, #7
rev x0, x1
clz x0, x1
paciasp
autiasp
retaa
blraaz x0
braa x0, x1
bti c
ldraa x0, [x1]
