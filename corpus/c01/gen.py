#!/usr/bin/env python3
"""C01 instruction TABLE -> assembly templates -> llvm-mc -> committed corpus.

    python3 corpus/c01/gen.py            regenerate amd64.tsv, x86.tsv, tramp.hex
    python3 corpus/c01/gen.py --check    verify the committed files are what the table gives

The table below (mnemonic x operand kinds x operand size x prefixes) is the single source the
recorder (harness/src/bin/c01.rs) and the judge (spec/X86.tla via spec/trace/Trace_C01.tla)
share: every row is expanded into concrete Intel-syntax templates, assembled by llvm-mc (an
encoder independent of capstone, the decoder falcon uses) and written as one line

    <hex bytes> \t <abstract instruction, JSON> \t <assembly text>

The ABSTRACT INSTRUCTION is what the specification executes.  It is derived from the template,
never from a disassembly of the bytes, so a capstone misdecode shows up as a semantic mismatch.

  {"mn": mnemonic ("cmovcc"/"setcc"/"jcc" carry the condition in "cc"), "sz": operation size in bits (0: none), "pfx": ""|"rep"|"repe"|"repne"|"lock",
   "form": operand kinds ("r32,m32"), "nat": 1 iff the bytes may be executed natively,
   "ops": [ {"k":"reg","n":"ah","f":"rax","o":8,"s":8}         register: full register, bit offset, size
          | {"k":"xmm","n":"xmm3","s":128}
          | {"k":"mem","s":32,"b":"rbx"|""|"rip","i":"rcx"|"","sc":4,"d":[limbs],"as":64}
          | {"k":"imm","s":32,"v":[limbs]}                      value at the size the operation uses
          | {"k":"rel","v":[limbs]} ]}                          branch target - instruction address

No semantics is computed here; immediates are written in the assembly text and, as the same
two's-complement number, in the abstract operand.
"""
import json
import os
import random
import subprocess
import sys

HERE = os.path.dirname(os.path.abspath(__file__))

# fixed guest addresses, shared with the recorder and the trampoline (tramp.s)
WIN = 0x20001800          # data window [WIN, WIN + 256)
WIN_SIZE = 256
CTX = 0x20003000          # context block of the native trampoline
CODE = 0x21000000         # code pages
A = CODE + 0x800          # address of the instruction instance (both modes)

R64 = "rax rcx rdx rbx rsp rbp rsi rdi r8 r9 r10 r11 r12 r13 r14 r15".split()
R32 = "eax ecx edx ebx esp ebp esi edi r8d r9d r10d r11d r12d r13d r14d r15d".split()
R16 = "ax cx dx bx sp bp si di r8w r9w r10w r11w r12w r13w r14w r15w".split()
R8 = "al cl dl bl spl bpl sil dil r8b r9b r10b r11b r12b r13b r14b r15b".split()
RH = ["ah", "ch", "dh", "bh"]
PTR = {8: "byte", 16: "word", 32: "dword", 64: "qword", 128: "xmmword"}
CCS = "o no b ae e ne be a s ns p np l ge le g".split()


def limbs(v, bits):
    v &= (1 << bits) - 1
    return [(v >> (8 * i)) & 0xFF for i in range((bits + 7) // 8)]


class Table:
    def __init__(self, mode):
        self.mode = mode                      # 32 | 64
        self.W = mode
        self.rng = random.Random(0xC01 + mode)
        self.rows = []                        # (asm, ins)
        self.full = R64 if mode == 64 else R32

    # ---------------------------------------------------------------- operands
    def reg(self, size, idx=None, norex=False, avoid=()):
        """general register operand of `size` bits"""
        r = self.rng
        if idx is None:
            if self.mode == 32 or norex:
                pool = list(range(4)) if size == 8 else list(range(8))
            else:
                pool = list(range(16))
            pool = [i for i in pool if i not in avoid and i != 4] or [0]     # rsp only on purpose
            idx = r.choice(pool)
        name = {8: R8, 16: R16, 32: R32, 64: R64}[size][idx]
        return (name, {"k": "reg", "n": name, "f": self.full[idx], "o": 0, "s": size})

    def regh(self, idx=None):
        idx = self.rng.randrange(4) if idx is None else idx
        return (RH[idx], {"k": "reg", "n": RH[idx], "f": self.full[idx], "o": 8, "s": 8})

    def xmm(self, idx=None):
        n = 16 if self.mode == 64 else 8
        idx = self.rng.randrange(n) if idx is None else idx
        return ("xmm%d" % idx, {"k": "xmm", "n": "xmm%d" % idx, "s": 128})

    def imm(self, size, enc=None, values=None):
        """immediate used at `size` bits, encodable in `enc` bits (sign-extended)"""
        enc = enc or min(size, 32)
        r = self.rng
        lo, hi = -(1 << (enc - 1)), (1 << (enc - 1)) - 1
        cands = values or [0, 1, -1, lo, hi, 0x7F, -0x80, 2, r.randint(lo, hi), r.randint(lo, hi), r.randint(-200, 200)]
        v = r.choice([c for c in cands if lo <= c <= hi] or [0])
        return (str(v), {"k": "imm", "s": size, "v": limbs(v, size)})

    def uimm8(self, values=None):
        v = self.rng.choice(values or [0, 1, 2, 7, 8, 9, 15, 16, 17, 31, 32, 33, 63, 64, 65, 127, 128, 255, self.rng.randrange(256)])
        return (str(v), {"k": "imm", "s": 8, "v": [v]})

    def mem(self, size, variant=None, norex=False, base=None):
        r = self.rng
        W = self.W
        variants = ["b", "bd8", "bd32", "bis", "bisd", "is", "abs", "bb"]
        if self.mode == 64 and not norex:
            variants += ["rip", "a32", "b", "bisd"]
        v = variant or r.choice(variants)
        hi = 8 if (self.mode == 32 or norex) else 16
        names = self.full
        b = i = ""
        sc = 1
        d = 0
        asz = W
        if v in ("b", "bd8", "bd32", "bis", "bisd", "bb", "a32"):
            bi = base if base is not None else r.choice([x for x in range(hi) if x != 4] + [4])
            b = names[bi]
        if v in ("bis", "bisd", "is", "a32"):
            ii = r.choice([x for x in range(hi) if x != 4])
            i = names[ii]
            sc = r.choice([1, 2, 4, 8])
        if v == "bb":
            if bi == 4:
                bi = 3
                b = names[bi]
            i, ii = b, bi
            sc = r.choice([1, 2, 4, 8])
        if v == "bd8":
            d = r.choice([-128, -8, 8, 127, r.randint(-128, 127)]) or 4
        if v in ("bd32", "bisd", "a32"):
            d = r.choice([-0x80000000, 0x7FFFFFFF, 0x1000, -0x1000, r.randint(-2**31, 2**31 - 1), 129, -129])
        if v == "is":
            d = r.choice([0x100, WIN, r.randint(0, 2**31 - 1)])
        if v == "abs":
            d = WIN + r.randrange(16, WIN_SIZE - 32, 16 if size == 128 else 1)
        if v == "rip":
            b = "rip"
            d = WIN + 64 - (A + 8) + (0 if size == 128 else r.randrange(0, 64))
        txt_regs = names
        if v == "a32":
            asz = 32
            txt_regs = R32
        parts = []
        if b:
            parts.append("rip" if b == "rip" else txt_regs[names.index(b)])
        if i:
            parts.append("%s*%d" % (txt_regs[names.index(i)], sc))
        inner = " + ".join(parts)
        if d or not parts:
            inner += (" + " if parts and d >= 0 else " - " if parts else "") + (str(abs(d)) if parts else str(d))
        text = "%s ptr [%s]" % (PTR[size], inner)
        return (text, {"k": "mem", "s": size, "b": b, "i": i, "sc": sc, "d": limbs(d, W), "as": asz, "v": v})

    # ---------------------------------------------------------------- rows
    def add(self, mn, ops, sz=0, pfx="", asm_mn=None, nat=1, form=None, text=None, cc=None, asz=None):
        kinds = []
        for _, o in ops:
            k = o["k"]
            kinds.append(("rh" if o.get("o") == 8 else "r%d" % o["s"]) if k == "reg" else
                         "m%d" % o["s"] if k == "mem" else {"xmm": "x", "imm": "i", "rel": "rel"}[k])
        ins = {"mn": mn, "sz": sz, "pfx": pfx, "form": form if form is not None else ",".join(kinds), "nat": nat,
               "ops": [o for _, o in ops]}
        if cc is not None:
            ins["cc"] = cc
        if asz is not None:
            ins["as"] = asz            # address size of an instruction with implicit memory operands
        if text is None:
            text = (pfx + " " if pfx else "") + (asm_mn or mn) + (" " + ", ".join(t for t, _ in ops) if ops else "")
        self.rows.append((text, ins))

    def rm_pairs(self, sz, n_each=1, imm_ok=True, with_high=True):
        """operand pairs for a two-operand ALU-style instruction"""
        out = []
        for _ in range(n_each):
            out.append([self.reg(sz), self.reg(sz)])
            out.append([self.reg(sz), self.mem(sz)])
            out.append([self.mem(sz), self.reg(sz)])
            if imm_ok:
                out.append([self.reg(sz), self.imm(sz)])
                out.append([self.mem(sz), self.imm(sz)])
        # aliasing: dst = src; dst = base of the memory operand
        a = self.reg(sz)
        out.append([a, a])
        idx = self.full.index(a[1]["f"])
        if sz >= 16:
            out.append([a, self.mem(sz, "bd8", base=idx)])
            out.append([self.mem(sz, "b", base=idx), a])
        if sz == 8 and with_high:
            out.append([self.regh(), self.reg(8, norex=True)])
            out.append([self.reg(8, norex=True), self.regh()])
            h = self.regh()
            out.append([h, self.reg(8, idx=RH.index(h[0]))])            # ah, al
            out.append([self.regh(), self.mem(8, norex=True)])
            out.append([self.mem(8, norex=True), self.regh()])
            if imm_ok:
                out.append([self.regh(), self.imm(8)])
        return out

    def sizes(self, lst=(8, 16, 32, 64)):
        return [s for s in lst if s <= self.W]

    def build(self):
        W = self.W
        t = self
        # ---- two-operand ALU
        for mn in "add adc sub sbb and or xor cmp".split():
            for sz in t.sizes():
                for ops in t.rm_pairs(sz):
                    t.add(mn, ops, sz)
        for sz in t.sizes():
            for ops in [[t.reg(sz), t.reg(sz)], [t.mem(sz), t.reg(sz)], [t.reg(sz), t.imm(sz)], [t.mem(sz), t.imm(sz)]]:
                t.add("test", ops, sz)
            a = t.reg(sz)
            t.add("test", [a, a], sz)
        t.add("test", [t.regh(), t.imm(8)], 8)
        t.add("test", [t.regh(), t.reg(8, norex=True)], 8)
        # ---- one-operand ALU
        for mn in "inc dec neg not".split():
            for sz in t.sizes():
                t.add(mn, [t.reg(sz)], sz)
                t.add(mn, [t.mem(sz)], sz)
            t.add(mn, [t.regh()], 8)
        # ---- mov family
        for sz in t.sizes():
            for ops in t.rm_pairs(sz, n_each=2):
                t.add("mov", ops, sz)
        if W == 64:
            for _ in range(3):
                t.add("mov", [t.reg(64), t.imm(64, 64, [0x1122334455667788, -0x7FFFFFFFFFFFFFFF, 2**63 - 1, 0x80000000, 0xFFFFFFFF])], 64, asm_mn="movabs")
            t.add("mov", [t.reg(64, idx=0), ("qword ptr [%d]" % (WIN + 40), {"k": "mem", "s": 64, "b": "", "i": "", "sc": 1, "d": limbs(WIN + 40, 64), "as": 64, "v": "moffs"})], 64, asm_mn="movabs")
            t.add("mov", [("byte ptr [%d]" % (WIN + 41), {"k": "mem", "s": 8, "b": "", "i": "", "sc": 1, "d": limbs(WIN + 41, 64), "as": 64, "v": "moffs"}), t.reg(8, idx=0)], 8, asm_mn="movabs")
        for mn in ("movzx", "movsx"):
            for dsz in t.sizes((16, 32, 64)):
                for ssz in (8, 16):
                    if ssz >= dsz:
                        continue
                    t.add(mn, [t.reg(dsz), t.reg(ssz)], dsz)
                    t.add(mn, [t.reg(dsz), t.mem(ssz)], dsz)
                    a = t.reg(dsz)
                    t.add(mn, [a, t.reg(ssz, idx=t.full.index(a[1]["f"]) % (4 if W == 32 and ssz == 8 else 16))], dsz)
                if dsz < 64:
                    t.add(mn, [t.reg(dsz, norex=True), t.regh()], dsz)
        if W == 64:
            t.add("movsxd", [t.reg(64), t.reg(32)], 64)
            t.add("movsxd", [t.reg(64), t.mem(32)], 64)
            a = t.reg(64)
            t.add("movsxd", [a, t.reg(32, idx=R64.index(a[1]["f"]))], 64)
        for sz in t.sizes((16, 32, 64)):
            for v in ["b", "bd8", "bd32", "bis", "bisd", "is", "bb", "abs"] + (["rip", "a32", "a32"] if W == 64 else []):
                t.add("lea", [t.reg(sz), t.mem(sz, v)], sz)
        for sz in t.sizes():
            t.add("xchg", [t.reg(sz, avoid=(0,)), t.reg(sz, avoid=(0,))], sz)
            t.add("xchg", [t.reg(sz, idx=0), t.reg(sz, avoid=(0,))], sz)
            t.add("xchg", [t.reg(sz), t.mem(sz)], sz)
            t.add("xchg", [t.mem(sz), t.reg(sz)], sz)
            a = t.reg(sz, avoid=(0,))
            t.add("xchg", [a, a], sz)
            for mn in ("xadd", "cmpxchg"):
                t.add(mn, [t.reg(sz), t.reg(sz)], sz)
                t.add(mn, [t.mem(sz), t.reg(sz)], sz)
                t.add(mn, [t.mem(sz), t.reg(sz)], sz, pfx="lock")
                a = t.reg(sz)
                t.add(mn, [a, a], sz)
                t.add(mn, [t.reg(sz, avoid=(0,)), t.reg(sz, idx=0)], sz)
                t.add(mn, [t.reg(sz, idx=0), t.reg(sz, avoid=(0,))], sz)
        t.add("xchg", [t.regh(), t.reg(8, norex=True)], 8)
        t.add("xadd", [t.regh(), t.reg(8, norex=True)], 8)
        for sz in t.sizes((32, 64)):
            for _ in range(2):
                t.add("bswap", [t.reg(sz)], sz)
        for cc in CCS:
            for sz in t.sizes((16, 32, 64)):
                t.add("cmovcc", [t.reg(sz), t.reg(sz)], sz, asm_mn="cmov" + cc, cc=cc)
                t.add("cmovcc", [t.reg(sz), t.mem(sz)], sz, asm_mn="cmov" + cc, cc=cc)
            t.add("setcc", [t.reg(8)], 8, asm_mn="set" + cc, cc=cc)
            t.add("setcc", [t.mem(8)], 8, asm_mn="set" + cc, cc=cc)
            t.add("setcc", [t.regh()], 8, asm_mn="set" + cc, cc=cc)
        # ---- shifts and rotates
        for mn in "shl shr sar rol ror".split():
            for sz in t.sizes():
                cl = ("cl", {"k": "reg", "n": "cl", "f": t.full[1], "o": 0, "s": 8})
                one = ("1", {"k": "imm", "s": 8, "v": [1]})
                for dst in (t.reg(sz, avoid=(1,)), t.mem(sz)):
                    t.add(mn, [dst, one], sz)
                    t.add(mn, [dst, t.uimm8()], sz)
                    t.add(mn, [dst, t.uimm8()], sz)
                    t.add(mn, [dst, cl], sz)
                t.add(mn, [t.reg(sz, idx=1), cl], sz)                     # shl ecx, cl
            t.add(mn, [t.regh(), t.uimm8()], 8)
            t.add(mn, [t.regh(), ("cl", {"k": "reg", "n": "cl", "f": t.full[1], "o": 0, "s": 8})], 8)
        for mn in ("shld", "shrd"):
            for sz in t.sizes((16, 32, 64)):
                cl = ("cl", {"k": "reg", "n": "cl", "f": t.full[1], "o": 0, "s": 8})
                for dst in (t.reg(sz, avoid=(1,)), t.mem(sz)):
                    t.add(mn, [dst, t.reg(sz, avoid=(1,)), t.uimm8()], sz)
                    t.add(mn, [dst, t.reg(sz, avoid=(1,)), t.uimm8([1, 1, 2, sz - 1])], sz)
                    t.add(mn, [dst, t.reg(sz, avoid=(1,)), cl], sz)
                a = t.reg(sz, avoid=(1,))
                t.add(mn, [a, a, t.uimm8([1, 3, sz - 1])], sz)
        # ---- multiply / divide
        for mn in ("mul", "imul", "div", "idiv"):
            for sz in t.sizes():
                t.add(mn, [t.reg(sz, avoid=(0, 2))], sz)
                t.add(mn, [t.mem(sz)], sz)
                t.add(mn, [t.reg(sz, idx=0)], sz)
                if sz > 8:
                    t.add(mn, [t.reg(sz, idx=2)], sz)
            t.add(mn, [t.regh()], 8)
        for sz in t.sizes((16, 32, 64)):
            t.add("imul", [t.reg(sz), t.reg(sz)], sz)
            t.add("imul", [t.reg(sz), t.mem(sz)], sz)
            a = t.reg(sz)
            t.add("imul", [a, a], sz)
            t.add("imul", [t.reg(sz), t.reg(sz), t.imm(sz)], sz)
            t.add("imul", [t.reg(sz), t.reg(sz), t.imm(sz, 8)], sz)
            t.add("imul", [t.reg(sz), t.mem(sz), t.imm(sz)], sz)
        # ---- bit tests and scans
        for mn in ("bt", "btc", "btr", "bts"):
            for sz in t.sizes((16, 32, 64)):
                t.add(mn, [t.reg(sz), t.reg(sz)], sz)
                t.add(mn, [t.reg(sz), t.uimm8()], sz)
                t.add(mn, [t.mem(sz), t.reg(sz)], sz)
                t.add(mn, [t.mem(sz), t.uimm8()], sz)
                a = t.reg(sz)
                t.add(mn, [a, a], sz)
        for mn in ("bsf", "bsr"):
            for sz in t.sizes((16, 32, 64)):
                t.add(mn, [t.reg(sz), t.reg(sz)], sz)
                t.add(mn, [t.reg(sz), t.mem(sz)], sz)
                a = t.reg(sz)
                t.add(mn, [a, a], sz)
        # ---- conversions and flag instructions
        for mn, sz in (("cbw", 16), ("cwde", 32), ("cwd", 16), ("cdq", 32)) + ((("cdqe", 64), ("cqo", 64)) if W == 64 else ()):
            t.add(mn, [], sz)
        for mn in "clc stc cmc cld std sahf nop pause wait".split():
            t.add(mn, [], 0)
        t.add("lahf", [], 0)
        for mn in ("cli", "sti", "hlt"):
            t.add(mn, [], 0)                      # privileged: the processor faults (contained)
        t.add("nop", [t.mem(32, "bisd")], 32)
        for mn in ("prefetcht0", "prefetcht1", "prefetcht2", "prefetchnta"):
            t.add(mn, [t.mem(8, "bd8")], 0)
        for mn, txt in (("int", "int 128"), ("int", "int 3"), ("syscall", "syscall"), ("sysenter", "sysenter"), ("ud2", "ud2")):
            if mn == "syscall" and W == 32:
                continue
            t.add(mn, [], 0, nat=0, text=txt)
        # ---- stack
        ssz = W
        for sz in (16, ssz):
            t.add("push", [t.reg(sz)], sz)
            t.add("push", [t.reg(sz)], sz)
            t.add("push", [t.mem(sz)], sz)
            t.add("pop", [t.reg(sz)], sz)
            t.add("pop", [t.reg(sz)], sz)
            t.add("pop", [t.mem(sz, t.rng.choice(["b", "bd8", "bisd", "abs"]), base=3)], sz)
        t.add("push", [t.reg(ssz, idx=4)], ssz)
        t.add("pop", [t.reg(ssz, idx=4)], ssz)
        t.add("push", [t.mem(ssz, "bd8", base=4)], ssz)
        t.add("pop", [t.mem(ssz, "bd8", base=4)], ssz)
        for vals in ([5, -1, 127, -128], [0x12345, -0x80000000, 0x7FFFFFFF, 128]):
            t.add("push", [t.imm(ssz, 32, vals)], ssz)
            t.add("push", [t.imm(ssz, 32, vals)], ssz)
        t.add("leave", [], ssz)

        def rel(off):
            return ("L@%+d" % off, {"k": "rel", "v": limbs(off, 64)})
        for off in (0x40, -0x40, 0x400, -0x400):
            t.add("jmp", [rel(off)], 0)
            t.add("call", [rel(off)], ssz)
        for cc in CCS:
            t.add("jcc", [rel(0x40)], 0, asm_mn="j" + cc, cc=cc)
            t.add("jcc", [rel(t.rng.choice([-0x40, 0x400, -0x400]))], 0, asm_mn="j" + cc, cc=cc)
        for mn in ("loop", "loope", "loopne"):
            t.add(mn, [rel(0x40)], 0)
            t.add(mn, [rel(-0x40)], 0)
        t.add("jecxz", [rel(0x40)], 0)
        t.add("jcxz" if W == 32 else "jrcxz", [rel(0x40)], 0)
        for mn in ("jmp", "call"):
            t.add(mn, [t.reg(ssz)], ssz)
            t.add(mn, [t.reg(ssz)], ssz)
            t.add(mn, [t.mem(ssz)], ssz)
            t.add(mn, [t.mem(ssz)], ssz)
        t.add("call", [t.reg(ssz, idx=4)], ssz)
        t.add("call", [t.mem(ssz, "bd8", base=4)], ssz)
        t.add("ret", [], ssz)
        for v in (8, 0, 16, 0x18):
            t.add("ret", [(str(v), {"k": "imm", "s": 16, "v": limbs(v, 16)})], ssz)
        # ---- string instructions
        for base, sizes in (("movs", (8, 16, 32, 64)), ("stos", (8, 16, 32, 64)), ("lods", (8, 16, 32, 64)),
                            ("scas", (8, 16, 32, 64)), ("cmps", (8, 16, 32, 64))):
            for sz in t.sizes(sizes):
                suffix = {8: "b", 16: "w", 32: "d", 64: "q"}[sz]
                pf = [""] + (["rep"] if base in ("movs", "stos", "lods") else ["repe", "repne"])
                for pfx in pf:
                    t.add(base, [], sz, pfx=pfx, text=(pfx + " " if pfx else "") + base + suffix)
        # ---- SSE subset
        if True:
            for mn in ("movaps", "movups", "movapd", "movdqa", "movdqu"):
                t.add(mn, [t.xmm(), t.xmm()], 128)
                t.add(mn, [t.xmm(), t.mem(128)], 128)
                t.add(mn, [t.mem(128), t.xmm()], 128)
            t.add("movq", [t.xmm(), t.xmm()], 64)
            t.add("movq", [t.xmm(), t.mem(64)], 64)
            t.add("movq", [t.mem(64), t.xmm()], 64)
            a = t.xmm()
            t.add("movq", [a, a], 64)
            if W == 64:
                t.add("movq", [t.xmm(), t.reg(64)], 64)
                t.add("movq", [t.reg(64), t.xmm()], 64)
            t.add("movd", [t.xmm(), t.reg(32)], 32)
            t.add("movd", [t.reg(32), t.xmm()], 32)
            t.add("movd", [t.xmm(), t.mem(32)], 32)
            t.add("movd", [t.mem(32), t.xmm()], 32)
            for mn in ("movhpd", "movlpd"):
                t.add(mn, [t.xmm(), t.mem(64)], 64)
                t.add(mn, [t.mem(64), t.xmm()], 64)
            for mn in "paddq psubq psubb pxor por pcmpeqb pcmpeqd pminub punpcklbw punpcklwd".split():
                t.add(mn, [t.xmm(), t.xmm()], 128)
                t.add(mn, [t.xmm(), t.xmm()], 128)
                t.add(mn, [t.xmm(), t.mem(128)], 128)
                a = t.xmm()
                t.add(mn, [a, a], 128)
            t.add("pmovmskb", [t.reg(32), t.xmm()], 32)
            t.add("pmovmskb", [t.reg(32), t.xmm()], 32)
            for _ in range(3):
                t.add("pshufd", [t.xmm(), t.xmm(), t.uimm8([0, 0x1B, 0xE4, 0xFF, 0x4E, t.rng.randrange(256)])], 128)
            t.add("pshufd", [t.xmm(), t.mem(128), t.uimm8([0x1B, 0xB1, t.rng.randrange(256)])], 128)
            a = t.xmm()
            t.add("pshufd", [a, a, t.uimm8([0x1B, 0x93])], 128)
            for mn in ("pslldq", "psrldq"):
                for vals in ([0, 1, 3], [8, 15], [16, 17, 255]):
                    t.add(mn, [t.xmm(), t.uimm8(vals)], 128)
            t.add("movnti", [t.mem(32), t.reg(32)], 32)
            if W == 64:
                t.add("movnti", [t.mem(64), t.reg(64)], 64)
            # SSE2 scalar-double move: capstone gives it the id of the string instruction movsd
            t.add("movsd_sse", [t.xmm(), t.xmm()], 64, asm_mn="movsd")
            t.add("movsd_sse", [t.xmm(), t.mem(64)], 64, asm_mn="movsd")
            t.add("movsd_sse", [t.mem(64), t.xmm()], 64, asm_mn="movsd")

        # ---- second batch (appended so that the templates above keep their register picks)
        # accumulator short forms (op al/ax/eax/rax, imm)
        for mn in "add adc sub sbb and or xor cmp test".split():
            for sz in t.sizes():
                t.add(mn, [t.reg(sz, idx=0), t.imm(sz)], sz)
        # absolute-address moves of the accumulator at the other sizes
        if W == 64:
            def moffs(sz, off):
                return ("%s ptr [%d]" % (PTR[sz], WIN + off),
                        {"k": "mem", "s": sz, "b": "", "i": "", "sc": 1, "d": limbs(WIN + off, 64), "as": 64, "v": "moffs"})
            t.add("mov", [t.reg(32, idx=0), moffs(32, 72)], 32, asm_mn="movabs")
            t.add("mov", [t.reg(16, idx=0), moffs(16, 75)], 16, asm_mn="movabs")
            t.add("mov", [moffs(16, 81), t.reg(16, idx=0)], 16, asm_mn="movabs")
            t.add("mov", [moffs(32, 83), t.reg(32, idx=0)], 32, asm_mn="movabs")
            t.add("mov", [moffs(64, 88), t.reg(64, idx=0)], 64, asm_mn="movabs")
        # segment overrides: es/cs/ss/ds have base 0 in 64-bit mode and in the flat 32-bit model;
        # fs/gs are not executed natively (and not specified)
        def seg(op, sname):
            text, o = op
            o = dict(o, seg=sname)
            return (text.replace("ptr [", "ptr %s:[" % sname), o)
        for sname in ("es", "cs", "ss", "ds"):
            sz = t.rng.choice(t.sizes((8, 16, 32, 64)))
            t.add("mov", [t.reg(sz), seg(t.mem(sz, t.rng.choice(["b", "bd8", "bisd"])), sname)], sz)
            sz = t.rng.choice(t.sizes((16, 32, 64)))
            t.add(t.rng.choice(["add", "xor", "sub"]), [seg(t.mem(sz, t.rng.choice(["b", "bd8", "bis"])), sname), t.reg(sz)], sz)
        for sname in ("fs", "gs"):
            t.add("mov", [t.reg(W), seg(t.mem(W, "b"), sname)], W, nat=0)
        # string instructions with the address-size override (esi/edi/ecx in 64-bit mode)
        if W == 64:
            acc = {8: "al", 16: "ax", 32: "eax"}
            for sz in (8, 16, 32):
                pt = PTR[sz]
                forms = {"movs": "movs %s ptr es:[edi], %s ptr [esi]" % (pt, pt),
                         "stos": "stos %s ptr es:[edi], %s" % (pt, acc[sz]),
                         "lods": "lods %s, %s ptr [esi]" % (acc[sz], pt),
                         "scas": "scas %s, %s ptr es:[edi]" % (acc[sz], pt),
                         "cmps": "cmps %s ptr [esi], %s ptr es:[edi]" % (pt, pt)}
                for base, txt in forms.items():
                    pf = [""] + (["rep"] if base in ("movs", "stos", "lods") else ["repe", "repne"])
                    for pfx in pf:
                        t.add(base, [], sz, pfx=pfx, text=(pfx + " " if pfx else "") + txt, asz=32, form="a32")
        # 16-bit addressing in 32-bit mode (only lea can be judged: the window is not reachable)
        if W == 32:
            for txt, b, i, d in (("[bx + si + 5]", "ebx", "esi", 5), ("[bp + di]", "ebp", "edi", 0), ("[bx - 129]", "ebx", "", -129),
                                 ("[si + 4096]", "esi", "", 4096), ("[bp + si - 2]", "ebp", "esi", -2)):
                for sz in (16, 32):
                    t.add("lea", [t.reg(sz), ("%s ptr %s" % (PTR[sz], txt),
                                              {"k": "mem", "s": sz, "b": b, "i": i, "sc": 1, "d": limbs(d, 32), "as": 16, "v": "a16"})], sz)


def assemble(mode, rows):
    """assemble all templates in one object; returns list of byte lists (None where llvm-mc refused)"""
    triple = "x86_64" if mode == 64 else "i386"
    alive = list(range(len(rows)))
    obj = os.path.join(HERE, ".gen_tmp.o")
    binf = os.path.join(HERE, ".gen_tmp.bin")
    for _ in range(40):
        lines = [".intel_syntax noprefix", ".text"]
        lineno = {}
        for k in alive:
            text = rows[k][0].replace("L@", "L%d" % k)
            lines.append("L%d: %s" % (k, text))
            lineno[len(lines)] = k
        lines.append("Lend: nop")
        src = "\n".join(lines) + "\n"
        p = subprocess.run(["llvm-mc", "-triple=" + triple, "-filetype=obj", "-o", obj],
                           input=src, stdout=subprocess.PIPE, stderr=subprocess.PIPE, text=True)
        bad = set()
        for l in p.stderr.splitlines():
            parts = l.split(":")
            if len(parts) > 3 and "error" in parts[3] and parts[1].isdigit():
                if int(parts[1]) in lineno:
                    bad.add(lineno[int(parts[1])])
        if p.returncode == 0 and not bad:
            break
        if not bad:
            raise SystemExit("llvm-mc failed:\n" + p.stderr[:2000])
        for k in sorted(bad):
            sys.stderr.write("  dropped (not encodable): %s\n" % rows[k][0])
        alive = [k for k in alive if k not in bad]
    subprocess.run(["llvm-objcopy", "-O", "binary", "--only-section=.text", obj, binf], check=True)
    nm = subprocess.run(["llvm-nm", "-n", obj], stdout=subprocess.PIPE, text=True, check=True).stdout
    # a template whose encoding still carries a relocation was not assembled as written
    # (e.g. i386 `jmp dword ptr [abs]` is taken as a direct jump): drop it
    rel = subprocess.run(["llvm-readelf", "-r", obj], stdout=subprocess.PIPE, text=True, check=True).stdout
    reloc_offsets = []
    for l in rel.splitlines():
        parts = l.split()
        if len(parts) >= 3 and len(parts[0]) in (8, 16) and all(c in "0123456789abcdef" for c in parts[0]):
            reloc_offsets.append(int(parts[0], 16))
    with open(binf, "rb") as f:
        text = f.read()
    os.remove(obj)
    os.remove(binf)
    offs = {}
    for l in nm.splitlines():
        a, _, name = l.split()
        offs[name] = int(a, 16)
    order = sorted(offs.items(), key=lambda kv: kv[1])
    nxt = {}
    for (n1, o1), (n2, o2) in zip(order, order[1:]):
        nxt[n1] = o2
    out = [None] * len(rows)
    for k in alive:
        n = "L%d" % k
        if any(offs[n] <= r < nxt[n] for r in reloc_offsets):
            sys.stderr.write("  dropped (relocation left): %s\n" % rows[k][0])
            continue
        out[k] = list(text[offs[n]:nxt[n]])
    return out


def table(mode):
    t = Table(mode)
    t.build()
    enc = assemble(mode, t.rows)
    lines = []
    seen = set()
    for (text, ins), b in zip(t.rows, enc):
        if b is None or not (1 <= len(b) <= 15):
            continue
        hx = "".join("%02x" % x for x in b)
        for o in ins["ops"]:
            o.pop("v", None) if o["k"] == "mem" else None
        key = hx + json.dumps(ins, sort_keys=True)
        if key in seen:
            continue
        seen.add(key)
        # falcon's 32-bit register table has no XMM registers (such instructions are not accepted
        # there): one template per SSE mnemonic is enough to record that
        if mode == 32 and any(o["k"] == "xmm" for o in ins["ops"]):
            if ("sse", ins["mn"]) in seen:
                continue
            seen.add(("sse", ins["mn"]))
        lines.append("%s\t%s\t%s" % (hx, json.dumps(ins, separators=(",", ":")), text.replace("L@", ".")))
    return lines


def tramp():
    src = open(os.path.join(HERE, "tramp.s")).read()
    obj = os.path.join(HERE, ".gen_tmp.o")
    binf = os.path.join(HERE, ".gen_tmp.bin")
    subprocess.run(["llvm-mc", "-triple=x86_64", "-filetype=obj", "-o", obj], input=src, text=True, check=True)
    subprocess.run(["llvm-objcopy", "-O", "binary", "--only-section=.text", obj, binf], check=True)
    with open(binf, "rb") as f:
        blob = f.read()
    os.remove(obj)
    os.remove(binf)
    return [blob[i:i + 32].hex() for i in range(0, len(blob), 32)]


def main():
    outs = {"amd64.tsv": table(64), "x86.tsv": table(32), "tramp.hex": tramp()}
    check = "--check" in sys.argv
    ok = True
    for name, lines in outs.items():
        p = os.path.join(HERE, name)
        body = "\n".join(lines) + "\n"
        if check:
            if not os.path.exists(p) or open(p).read() != body:
                print("corpus/c01/%s is not what the table generates" % name)
                ok = False
        else:
            with open(p, "w") as f:
                f.write(body)
            print("%s: %d lines" % (name, len(lines)))
    sys.exit(0 if ok else 1)


if __name__ == "__main__":
    main()
