# Native trampoline of the C01 recorder (assembled by gen.py into tramp.hex, loaded at CODE =
# 0x21000000).  The context block lives at CTX = 0x20003000:
#   +0x000 gpr[16] (rax rcx rdx rbx rsp rbp rsi rdi r8..r15)   +0x080 rflags   +0x088 pad id
#   +0x090 host rsp                                           +0x100 xmm[16]
# entry (CODE+0): load XMM, RFLAGS, GPRs from the context, jump to the instruction slot at
# CODE+0x800 (32 bytes, NOP-filled, the instance's bytes are copied to its start).  Control
# leaves the slot by falling into pad 0 (CODE+0x820) or by a branch to one of the other pads;
# every pad stores its id and enters the epilogue, which writes the state back.
# recover (CODE+0x1400) is where the fault handler resumes: host stack, no state saved.
.intel_syntax noprefix
.text
entry:
  push rbx
  push rbp
  push r12
  push r13
  push r14
  push r15
  mov qword ptr [0x20003090], rsp
  movdqu xmm0, xmmword ptr [0x20003100]
  movdqu xmm1, xmmword ptr [0x20003110]
  movdqu xmm2, xmmword ptr [0x20003120]
  movdqu xmm3, xmmword ptr [0x20003130]
  movdqu xmm4, xmmword ptr [0x20003140]
  movdqu xmm5, xmmword ptr [0x20003150]
  movdqu xmm6, xmmword ptr [0x20003160]
  movdqu xmm7, xmmword ptr [0x20003170]
  movdqu xmm8, xmmword ptr [0x20003180]
  movdqu xmm9, xmmword ptr [0x20003190]
  movdqu xmm10, xmmword ptr [0x200031a0]
  movdqu xmm11, xmmword ptr [0x200031b0]
  movdqu xmm12, xmmword ptr [0x200031c0]
  movdqu xmm13, xmmword ptr [0x200031d0]
  movdqu xmm14, xmmword ptr [0x200031e0]
  movdqu xmm15, xmmword ptr [0x200031f0]
  push qword ptr [0x20003080]
  popfq
  mov rcx, qword ptr [0x20003008]
  mov rdx, qword ptr [0x20003010]
  mov rbx, qword ptr [0x20003018]
  mov rbp, qword ptr [0x20003028]
  mov rsi, qword ptr [0x20003030]
  mov rdi, qword ptr [0x20003038]
  mov r8, qword ptr [0x20003040]
  mov r9, qword ptr [0x20003048]
  mov r10, qword ptr [0x20003050]
  mov r11, qword ptr [0x20003058]
  mov r12, qword ptr [0x20003060]
  mov r13, qword ptr [0x20003068]
  mov r14, qword ptr [0x20003070]
  mov r15, qword ptr [0x20003078]
  mov rsp, qword ptr [0x20003020]
  mov rax, qword ptr [0x20003000]
  jmp slot

.org 0x400
  mov dword ptr [0x20003088], 1
  jmp epilogue
.org 0x7c0                             # A-0x40
  mov dword ptr [0x20003088], 2
  jmp epilogue
.org 0x800
slot:
  .fill 32, 1, 0x90
.org 0x820                             # pad 0: fall through
  mov dword ptr [0x20003088], 0
  jmp epilogue
.org 0x840                             # A+0x40
  mov dword ptr [0x20003088], 3
  jmp epilogue
.org 0x880                             # A+0x80
  mov dword ptr [0x20003088], 5
  jmp epilogue
.org 0x8c0                             # A+0xc0
  mov dword ptr [0x20003088], 6
  jmp epilogue
.org 0xc00                             # A+0x400
  mov dword ptr [0x20003088], 4
  jmp epilogue

.org 0x1000
epilogue:
  mov qword ptr [0x20003000], rax
  mov qword ptr [0x20003008], rcx
  mov qword ptr [0x20003010], rdx
  mov qword ptr [0x20003018], rbx
  mov qword ptr [0x20003020], rsp
  mov qword ptr [0x20003028], rbp
  mov qword ptr [0x20003030], rsi
  mov qword ptr [0x20003038], rdi
  mov qword ptr [0x20003040], r8
  mov qword ptr [0x20003048], r9
  mov qword ptr [0x20003050], r10
  mov qword ptr [0x20003058], r11
  mov qword ptr [0x20003060], r12
  mov qword ptr [0x20003068], r13
  mov qword ptr [0x20003070], r14
  mov qword ptr [0x20003078], r15
  mov rsp, qword ptr [0x20003090]
  pushfq
  pop qword ptr [0x20003080]
  cld
  movdqu xmmword ptr [0x20003100], xmm0
  movdqu xmmword ptr [0x20003110], xmm1
  movdqu xmmword ptr [0x20003120], xmm2
  movdqu xmmword ptr [0x20003130], xmm3
  movdqu xmmword ptr [0x20003140], xmm4
  movdqu xmmword ptr [0x20003150], xmm5
  movdqu xmmword ptr [0x20003160], xmm6
  movdqu xmmword ptr [0x20003170], xmm7
  movdqu xmmword ptr [0x20003180], xmm8
  movdqu xmmword ptr [0x20003190], xmm9
  movdqu xmmword ptr [0x200031a0], xmm10
  movdqu xmmword ptr [0x200031b0], xmm11
  movdqu xmmword ptr [0x200031c0], xmm12
  movdqu xmmword ptr [0x200031d0], xmm13
  movdqu xmmword ptr [0x200031e0], xmm14
  movdqu xmmword ptr [0x200031f0], xmm15
  pop r15
  pop r14
  pop r13
  pop r12
  pop rbp
  pop rbx
  ret

.org 0x1400
recover:
  mov rsp, qword ptr [0x20003090]
  cld
  pop r15
  pop r14
  pop r13
  pop r12
  pop rbp
  pop rbx
  ret
