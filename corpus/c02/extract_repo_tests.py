#!/usr/bin/env python3
"""Transcribe the expectations hard-coded in falcon's own MIPS lifter tests
(/repo/lib/translator/mips/test.rs) into corpus/c02/repo_tests.ndjson, mechanically.

Each assertion of a test becomes one "prog" record: the program bytes (big endian, at address
0), the initial registers, the data bytes, the address to run to, and ONE expected value
(a register, HI/LO, a memory value, or the intrinsic a trapping instruction raises).
spec/mc/MC_C02_RepoTests.tla runs the program on the explicit-nPC machine built from Mips.tla
and compares: the expected values were hand-computed by falcon's authors, so this is an
independent check of the transcription of the manual (never of falcon).

    python3 corpus/c02/extract_repo_tests.py [/repo] > corpus/c02/repo_tests.ndjson
"""
import json
import re
import sys

REPO = sys.argv[1] if len(sys.argv) > 1 else "/repo"
SRC = open(REPO + "/lib/translator/mips/test.rs").read()
NAMES = ["$zero", "$at", "$v0", "$v1", "$a0", "$a1", "$a2", "$a3", "$t0", "$t1", "$t2", "$t3", "$t4", "$t5", "$t6", "$t7",
         "$s0", "$s1", "$s2", "$s3", "$s4", "$s5", "$s6", "$s7", "$t8", "$t9", "$k0", "$k1", "$gp", "$sp", "$fp", "$ra"]
OR_A0 = [0x00, 0x84, 0x20, 0x25]          # the instruction init_driver_block appends


def num(s):
    s = s.strip().replace("_", "")
    return int(s, 16) if s.lower().startswith("0x") else int(s)


def l32(v):
    return [(v >> (8 * i)) & 255 for i in range(4)]


def byte_list(s):
    return [num(x) for x in s.replace("\n", " ").split(",") if x.strip()]


def scalars(s):
    return [(m.group(1), num(m.group(2))) for m in re.finditer(r'\("(\$\w+)",\s*const_\(([^,]+),\s*32\)\)', s)]


def regs_json(sc):
    out = []
    for n, v in sc:
        if n in ("$hi", "$lo"):
            out.append({"n": n[1:], "v": l32(v)})
        else:
            out.append({"n": "r%d" % NAMES.index(n), "v": l32(v)})
    return out


def window(code, stores, touched):
    """data window: the backing itself when every access stays inside it, else 64 bytes around
    the explicit stores / asserted addresses (zero filled)"""
    addrs = [a for a, _, _ in stores] + touched
    if all(a + 4 <= len(code) for a in addrs):
        return 0, list(code)
    base = (min(addrs) & ~15) - 16
    mem = [0] * 64
    for a, v, bits in stores:
        for i in range(bits // 8):                       # big endian
            mem[a - base + i] = (v >> (bits - 8 - 8 * i)) & 255
    return base, mem


def emit(test, idx, code, sc, stores, until, expect, touched):
    win, mem = window(code, stores, touched)
    print(json.dumps({"ev": "prog", "arch": "mips", "test": test, "idx": idx, "code": code, "regs": regs_json(sc),
                      "win": l32(win), "mem": mem, "until": l32(until), "expect": expect}))


tests = re.split(r'#\[test\]\s*fn (\w+)\(\) \{', SRC)[1:]
count = 0
for name, body in zip(tests[0::2], tests[1::2]):
    idx = 0
    # ---- form 1: get_scalar(&[word], vec![..], memory, "reg") ; assert_eq!(result.value_u64().unwrap(), V)
    stores = []
    pos = 0
    tok = re.compile(
        r'(?P<store>memory\s*\.store\(\s*(?P<sa>[^,]+),\s*const_\((?P<sv>[^,]+),\s*(?P<sb>\d+)\)\s*\))'
        r'|(?P<lb>let instruction_bytes = &\[(?P<lbb>[^\]]+)\];)'
        r'|(?P<gs>get_scalar\(\s*(?:&\[(?P<gb>[^\]]+)\]|instruction_bytes),?[^\n]*\s*vec!\[(?P<gv>.*?)\],\s*(?P<gm>[^,]+),\s*"(?P<gr>\$\w+)",?\s*\);\s*'
        r'assert_eq!\(result\.value_u64\(\)\.unwrap\(\),\s*(?P<gx>[^)]+)\))'
        r'|(?P<gi>get_intrinsic\(\s*(?:&\[(?P<ib>[^\]]+)\]|instruction_bytes),?[^\n]*\s*vec!\[(?P<iv>.*?)\],\s*(?P<im>[^,]+),?\s*\);\s*'
        r'assert_eq!\(intrinsic\.mnemonic\(\),\s*"(?P<ix>\w+)"\))', re.S)
    for m in tok.finditer(body):
        if m.group("store"):
            stores.append((num(m.group("sa")), num(m.group("sv")), int(m.group("sb"))))
        elif m.group("lb"):
            curbytes = byte_list(m.group("lbb"))
        elif m.group("gs"):
            code = (byte_list(m.group("gb")) if m.group("gb") else curbytes) + OR_A0
            st = stores if "memory" in m.group("gm") and "Memory::new" not in m.group("gm") else []
            r = m.group("gr")
            exp = {"k": r[1:], "v": l32(num(m.group("gx")))} if r in ("$hi", "$lo") else \
                  {"k": "reg", "n": "r%d" % NAMES.index(r), "v": l32(num(m.group("gx")))}
            emit(name, idx, code, scalars(m.group("gv")), st, 4, exp, [])
            idx += 1
        else:
            code = (byte_list(m.group("ib")) if m.group("ib") else curbytes) + OR_A0
            emit(name, idx, code, scalars(m.group("iv")), [], 4, {"k": "trap", "mn": m.group("ix")}, [])
            idx += 1
    # ---- form 2: backing!([...]) ; init_driver_function(bytes, vec![..]) ; [stores] ; step_to(driver, A) ; asserts
    cur = {"code": None, "sc": [], "stores": [], "until": None}
    tok2 = re.compile(
        r'(?P<bk>backing!\(\[(?P<bb>[^\]]+)\]\))'
        r'|(?P<init>init_driver_function\(\s*[\w\.\(\)]+,\s*vec!\[(?P<iv>.*?)\],?\s*\);)'
        r'|(?P<st>\.memory_mut\(\)\s*\.store\(\s*(?P<sa>[^,]+),\s*const_\((?P<sv>[^,]+),\s*(?P<sb>\d+)\)\s*\))'
        r'|(?P<step>step_to\(driver,\s*(?P<ua>[^)]+)\))'
        r'|(?P<areg>\.get_scalar\("(?P<rn>\$\w+)"\)\s*\.unwrap\(\)\s*\.value_u64\(\)\s*\.unwrap\(\),\s*(?P<rv>[^\s)]+)\s*\))'
        r'|(?P<amem>assert_eq!\(memval\(driver\.state\(\)\.memory\(\),\s*(?P<ma>[^,)]+)(?:,\s*(?P<mb>\d+))?\),\s*(?P<mv>[^)]+)\))', re.S)
    for m in tok2.finditer(body):
        if m.group("bk"):
            cur["code"] = byte_list(m.group("bb"))
        elif m.group("init"):
            cur["sc"] = scalars(m.group("iv"))
            cur["stores"] = []
            cur["until"] = None
        elif m.group("st"):
            cur["stores"].append((num(m.group("sa")), num(m.group("sv")), int(m.group("sb"))))
        elif m.group("step"):
            cur["until"] = num(m.group("ua"))
        elif m.group("areg") and cur["code"] is not None and cur["until"] is not None:
            r = m.group("rn")
            exp = {"k": r[1:], "v": l32(num(m.group("rv")))} if r in ("$hi", "$lo") else \
                  {"k": "reg", "n": "r%d" % NAMES.index(r), "v": l32(num(m.group("rv")))}
            emit(name, idx, cur["code"], cur["sc"], cur["stores"], cur["until"], exp, [])
            idx += 1
        elif m.group("amem") and cur["code"] is not None and cur["until"] is not None:
            fixed = re.search(r'\.load\(address,\s*(\d+)\)', body)          # width fixed inside the test's memval helper
            bits = int(m.group("mb")) if m.group("mb") else int(fixed.group(1))
            a, v = num(m.group("ma")), num(m.group("mv"))
            exp = {"k": "mem", "a": l32(a), "bytes": [(v >> (bits - 8 - 8 * i)) & 255 for i in range(bits // 8)]}
            emit(name, idx, cur["code"], cur["sc"], cur["stores"], cur["until"], exp, [a])
            idx += 1
    count += idx
print("extracted %d expectations from %d tests" % (count, len(tests) // 2), file=sys.stderr)
