#!/bin/sh
# Regenerates the lifted-prologue corpus of C17 with llvm-mc (independent encoder).  The hex files are
# committed; this script is only needed to change the templates.
set -e
asm() { # triple, extra flags, name, assembly text
  printf '%s\n' "$4" | llvm-mc-14 -triple="$1" $2 -filetype=obj -o /tmp/c17.o 2>/dev/null || printf '%s\n' "$4" | llvm-mc -triple="$1" $2 -filetype=obj -o /tmp/c17.o
  llvm-objcopy-14 -O binary --only-section=.text /tmp/c17.o /tmp/c17.bin 2>/dev/null || llvm-objcopy -O binary --only-section=.text /tmp/c17.o /tmp/c17.bin
  od -An -v -tx1 /tmp/c17.bin | tr -d ' \n' > "$3.hex"; echo >> "$3.hex"
}
asm x86_64 "" amd64_frame '
 push %rbp
 mov %rsp, %rbp
 sub $32, %rsp
 mov %rdi, -8(%rbp)
 test %rdi, %rdi
 je 1f
 push %rbx
 pop %rbx
1:
 add $32, %rsp
 pop %rbp
 ret'
asm x86_64 "" amd64_leave '
 push %rbp
 mov %rsp, %rbp
 and $-16, %rsp
 sub $16, %rsp
 leave
 ret'
asm x86_64 "" amd64_loop '
 xor %eax, %eax
1:
 push %rax
 inc %eax
 cmp $4, %eax
 jne 1b
 add $32, %rsp
 ret'
asm i386 "" x86_frame '
 push %ebp
 mov %esp, %ebp
 sub $24, %esp
 push %ebx
 push %esi
 pop %esi
 pop %ebx
 add $24, %esp
 pop %ebp
 ret'
asm i386 "" x86_cond '
 sub $12, %esp
 test %eax, %eax
 je 1f
 push %eax
 jmp 2f
1:
 sub $4, %esp
2:
 add $16, %esp
 ret'
asm mips "" mips_frame '
 .set noreorder
 addiu $sp, $sp, -32
 sw $ra, 28($sp)
 sw $fp, 24($sp)
 move $fp, $sp
 beqz $a0, 1f
 nop
 addiu $sp, $sp, -8
 addiu $sp, $sp, 8
1:
 lw $ra, 28($sp)
 lw $fp, 24($sp)
 addiu $sp, $sp, 32
 jr $ra
 nop'
asm mipsel "" mipsel_frame '
 .set noreorder
 addiu $sp, $sp, -24
 sw $ra, 20($sp)
 bnez $a0, 1f
 addiu $sp, $sp, -8
 addiu $sp, $sp, 8
1:
 lw $ra, 20($sp)
 jr $ra
 addiu $sp, $sp, 24'
asm powerpc "" ppc_frame '
 stwu 1, -32(1)
 stw 31, 28(1)
 mr 31, 1
 addi 1, 1, -16
 addi 1, 1, 16
 lwz 31, 28(1)
 addi 1, 1, 32
 blr'
asm aarch64 "" aarch64_frame '
 sub sp, sp, #48
 stp x29, x30, [sp, #32]
 add x29, sp, #32
 cbz x0, 1f
 sub sp, sp, #16
 add sp, sp, #16
1:
 ldp x29, x30, [sp, #32]
 add sp, sp, #48
 ret'
asm aarch64 "" aarch64_preidx '
 stp x29, x30, [sp, #-32]!
 mov x29, sp
 str x19, [sp, #16]
 ldr x19, [sp, #16]
 ldp x29, x30, [sp], #32
 ret'
asm aarch64_be "" aarch64eb_frame '
 sub sp, sp, #32
 str x30, [sp, #24]
 ldr x30, [sp, #24]
 add sp, sp, #32
 ret'
